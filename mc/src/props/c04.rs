//! C04 — the decoder accepts every standard-conformant codeword stream: all streams of the
//! nondeterministic reference encoder R6 (strict tier) are replayed against the crate's decoder.

use datamatrix::data::{decode_data, decode_str};
use serde_json::{json, Value};

use crate::explore::{guarded, hex, unhex, Ctx, Stats, Tier, Worker};
use crate::gen::{self, Family, SIGMA8};
use crate::refmodel::charset;
use crate::refmodel::decoder::{self, Mode, ALL_MODES};
use crate::refmodel::encoder::{build_raw, Seg, Skip};

pub fn eval(stream: &[u8], expect: &[u8], st: &mut Stats) -> Result<(), String> {
    let r = guarded(|| decode_data(stream)).map_err(|p| format!("decode_data: {}", p))?;
    match r {
        Ok(out) if out == expect => {}
        Ok(out) => return Err(format!("decode_data reads {} instead of {}", hex(&out), hex(expect))),
        Err(e) => return Err(format!("decode_data rejects the stream: {:?}", e)),
    }
    // the string decoder agrees for printable Latin-1 content
    if expect.iter().all(|b| charset::latin1(*b).is_some()) {
        let want: String = expect.iter().map(|b| *b as char).collect();
        let r = guarded(|| decode_str(stream)).map_err(|p| format!("decode_str: {}", p))?;
        match r {
            Ok(s) if s == want => st.count("decode_str_agrees"),
            other => return Err(format!("decode_str gives {:?}", other)),
        }
    }
    st.count("traces_validated");
    Ok(())
}

fn seg_json(segs: &[Seg]) -> Value {
    Value::Array(segs.iter().map(|g| json!([g.mode.name(), g.len, g.flag])).collect())
}

fn desc(header: &[u8], s: &[u8], segs: &[Seg], cap: usize, stream: &[u8]) -> Value {
    json!({"header": hex(header), "in": hex(s), "script": seg_json(segs), "capacity": cap, "stream": hex(stream)})
}

/// Enumerate all scripts for `s` with at most `max_latches` non-ASCII runs, continuing after the
/// fixed prefix segments `pre` (which cover the first `start` characters).
fn scripts(s: &[u8], start: usize, pre: &[Seg], max_latches: usize, st: &mut Stats, f: &mut dyn FnMut(&[Seg], &mut Stats)) {
    fn rec(s: &[u8], i: usize, segs: &mut Vec<Seg>, latches: usize, max_latches: usize, st: &mut Stats, f: &mut dyn FnMut(&[Seg], &mut Stats)) {
        st.count("script_nodes");
        if i == s.len() {
            f(segs, st);
            return;
        }
        let prev_ascii = segs.last().map_or(false, |g| g.mode == Mode::Ascii);
        for m in ALL_MODES {
            if m == Mode::Ascii && prev_ascii {
                continue;
            }
            if m != Mode::Ascii && latches == max_latches {
                continue;
            }
            for len in 1..=s.len() - i {
                let run = &s[i..i + len];
                let flags: &[bool] = if m == Mode::Ascii {
                    if run.windows(2).any(|w| w[0].is_ascii_digit() && w[1].is_ascii_digit()) { &[true, false] } else { &[true] }
                } else {
                    &[true, false]
                };
                for flag in flags {
                    st.count("script_edges");
                    segs.push(Seg { mode: m, len, flag: *flag });
                    rec(s, i + len, segs, latches + (m != Mode::Ascii) as usize, max_latches, st, f);
                    segs.pop();
                }
            }
        }
    }
    let mut segs = pre.to_vec();
    let latches = pre.iter().filter(|g| g.mode != Mode::Ascii).count();
    rec(s, start, &mut segs, latches, latches + max_latches, st, f);
}

/// Materialise one script for every admissible real capacity (up to `ncaps`) and replay it.
fn replay_script(header: &[u8], s: &[u8], segs: &[Seg], caps: &[usize], ncaps: usize, w: &mut Worker) {
    let raw = match build_raw(header, s, segs) {
        Ok(r) => r,
        Err(e) => {
            w.stats.count(match e {
                Skip::NotEncodable => "skipped_not_encodable",
                Skip::Incomplete => "skipped_incomplete_triple",
                Skip::BadTermination => "skipped_termination_not_legal_here",
                Skip::NoCapacity => "skipped_no_capacity",
            });
            return;
        }
    };
    let mut expect: Vec<u8> = Vec::new();
    match header.first() {
        Some(236) => {
            expect.extend_from_slice(gen::MACRO05);
            expect.extend_from_slice(s);
            expect.extend_from_slice(gen::MACRO_TRAIL);
        }
        Some(237) => {
            expect.extend_from_slice(gen::MACRO06);
            expect.extend_from_slice(s);
            expect.extend_from_slice(gen::MACRO_TRAIL);
        }
        _ => expect.extend_from_slice(s),
    }
    let mut used = 0;
    for cap in caps.iter().copied().filter(|c| raw.admits(*c)) {
        if used == ncaps {
            break;
        }
        used += 1;
        let stream = raw.padded(cap);
        // model self-consistency: the reference decoder must read the input back
        match decoder::decode(&stream) {
            Ok(p) if p.out == expect => {
                for (m, e) in &p.run_ends {
                    w.stats.distinct("run_end_forms", (*m as u64) << 8 | *e as u64);
                }
            }
            other => {
                eprintln!("ENGINE-ERROR R6/R5 disagree on {:?} script {:?} cap {}: {:?}", s, segs, cap, other.map(|p| p.out));
                std::process::exit(2);
            }
        }
        w.sample(|| desc(header, s, segs, cap, &stream));
        w.check((s.len() * 100 + segs.len()) as u64, || desc(header, s, segs, cap, &stream), |st| eval(&stream, &expect, st));
    }
    if used == 0 {
        w.stats.count("skipped_no_real_capacity_admissible");
    } else {
        w.stats.count("scripts_materialised");
        if segs.iter().any(|g| g.mode != Mode::Ascii) {
            w.stats.count("nontrivial");
        }
    }
}

pub fn run(ctx: &Ctx) -> i32 {
    let caps = gen::capacities();
    // 1. all strings over sigma8 of length <= L with all scripts; longer ones with bounded latches
    let plan: Vec<(usize, usize, usize)> = match ctx.tier {
        // (min len, max len, max latches)
        Tier::Quick => vec![(0, 4, 9), (5, 5, 2), (6, 6, 1)],
        Tier::Thorough => vec![(0, 5, 9), (6, 6, 3), (7, 7, 2)],
    };
    for (lo, hi, lat) in plan {
        let fam = Family::Over { alpha: SIGMA8.to_vec(), min: lo, max: hi };
        let n = fam.size();
        let per = 8u64;
        ctx.par((n + per - 1) / per, |c, w| {
            w.label(|| format!("scripts for sigma8 strings len {}..={} chunk {}", lo, hi, c));
            let mut s = Vec::new();
            for i in c * per..((c + 1) * per).min(n) {
                fam.get(i, &mut s);
                let mut all: Vec<Vec<Seg>> = Vec::new();
                let mut st = Stats::default();
                scripts(&s, 0, &[], lat, &mut st, &mut |segs, _| all.push(segs.to_vec()));
                w.stats.add("script_nodes", st.counters.get("script_nodes").copied().unwrap_or(0));
                w.stats.add("script_edges", st.counters.get("script_edges").copied().unwrap_or(0));
                for segs in &all {
                    replay_script(&[], &s, segs, &caps, 5, w);
                }
            }
        });
    }
    // 1b. strings with high bytes (upper shift inside C40/Text, Base256, ASCII upper shift)
    {
        let alpha: Vec<u8> = vec![0x80, 0x9F, b'A', b'a', 0xE1, 0xFF, 0x1E];
        let fam = Family::Over { alpha, min: 1, max: ctx.tier.pick(4, 5) };
        let n = fam.size();
        let per = 8u64;
        ctx.par((n + per - 1) / per, |c, w| {
            w.label(|| format!("scripts for high-byte strings chunk {}", c));
            let mut s = Vec::new();
            for i in c * per..((c + 1) * per).min(n) {
                fam.get(i, &mut s);
                let mut all: Vec<Vec<Seg>> = Vec::new();
                let mut st = Stats::default();
                scripts(&s, 0, &[], if s.len() <= 3 { 9 } else { 2 }, &mut st, &mut |segs, _| all.push(segs.to_vec()));
                w.stats.add("script_nodes", st.counters.get("script_nodes").copied().unwrap_or(0));
                w.stats.add("script_edges", st.counters.get("script_edges").copied().unwrap_or(0));
                for segs in &all {
                    replay_script(&[], &s, segs, &caps, 4, w);
                }
            }
        });
    }
    // 1c. every byte value in every mode that can carry it (value tables of the decoder)
    ctx.par(256, |c, w| {
        let b = c as u8;
        w.label(|| format!("value tables byte {}", b));
        for mode in [Mode::C40, Mode::Text, Mode::X12, Mode::Edifact, Mode::Base256, Mode::Ascii] {
            for (s, segs) in [
                (vec![b, b, b], vec![Seg { mode, len: 3, flag: true }]),
                (vec![b'A', b, b'A', b, b'A', b], vec![Seg { mode, len: 6, flag: true }]),
                (vec![b, b, b, b], vec![Seg { mode, len: 4, flag: true }]),
                (vec![b'1', b, b, b, b'1'], vec![Seg { mode: Mode::Ascii, len: 1, flag: true }, Seg { mode, len: 3, flag: true }, Seg { mode: Mode::Ascii, len: 1, flag: true }]),
            ] {
                replay_script(&[], &s, &segs, &caps, 3, w);
            }
            // the byte at every phase of a packing group, the run ending with an explicit unlatch
            // and ending with the symbol (flag false: only capacities it fills exactly are admitted)
            let f = if mode == Mode::Text { b'a' } else { b'A' };
            for flag in [true, false] {
                for pre in 0..=4usize {
                    for post in 0..=2usize {
                        let mut s = vec![f; pre];
                        s.push(b);
                        s.extend(std::iter::repeat(f).take(post));
                        let n = s.len();
                        replay_script(&[], &s, &[Seg { mode, len: n, flag }], &caps, 3, w);
                        // ... and after an ASCII character, so that the run does not start the stream
                        let mut s2 = vec![b'1'];
                        s2.extend(&s);
                        replay_script(&[], &s2, &[Seg { mode: Mode::Ascii, len: 1, flag: true }, Seg { mode, len: n, flag }], &caps, 3, w);
                    }
                }
            }
        }
    });
    // 2. shifted tails: a filler run in each mode parks the position at every residue, then every
    //    tail over sigma8 of length <= 2 with all scripts
    let fillers: Vec<(u8, Mode, bool)> = vec![
        (b'A', Mode::C40, true), (b'A', Mode::X12, true), (b'A', Mode::Edifact, true), (b'A', Mode::Ascii, true),
        (b'A', Mode::Base256, true), (b'a', Mode::Text, true), (b'A', Mode::C40, false), (b'A', Mode::X12, false),
        (b'A', Mode::Edifact, false), (b'a', Mode::Text, false),
    ];
    let kmax = ctx.tier.pick(30usize, 64);
    let tails = Family::Over { alpha: SIGMA8.to_vec(), min: 0, max: ctx.tier.pick(2, 3) };
    ctx.par((fillers.len() * (kmax + 1)) as u64, |c, w| {
        let (ch, mode, flag) = fillers[c as usize / (kmax + 1)];
        let k = c as usize % (kmax + 1);
        if k == 0 {
            return;
        }
        w.label(|| format!("shifted tails filler {:?} x {} flag {}", mode, k, flag));
        let pre = [Seg { mode, len: k, flag }];
        let mut tail = Vec::new();
        for t in 0..tails.size() {
            tails.get(t, &mut tail);
            let mut s = vec![ch; k];
            s.extend(&tail);
            let mut all: Vec<Vec<Seg>> = Vec::new();
            let mut st = Stats::default();
            scripts(&s, k, &pre, 2, &mut st, &mut |segs, _| all.push(segs.to_vec()));
            w.stats.add("script_nodes", st.counters.get("script_nodes").copied().unwrap_or(0));
            w.stats.add("script_edges", st.counters.get("script_edges").copied().unwrap_or(0));
            for segs in &all {
                replay_script(&[], &s, segs, &caps, 3, w);
            }
        }
    });
    // 3. structured programs: long Base256 fields, headers
    ctx.seq(|w| {
        w.label(|| "structured programs".into());
        for l in [1usize, 2, 248, 249, 250, 251, 499, 500, 501, 749, 750, 999, 1000, 1249, 1250, 1304, 1499, 1500, 1554, 1555] {
            for fill in [0u8, b'A', 0xFF] {
                let s: Vec<u8> = (0..l).map(|i| fill.wrapping_add((i % 7) as u8)).collect();
                for flag in [true, false] {
                    replay_script(&[], &s, &[Seg { mode: Mode::Base256, len: l, flag }], &caps, 3, w);
                    // behind one ASCII character and one C40 triple
                    let mut s2 = b"xAAA".to_vec();
                    s2.extend(&s);
                    replay_script(&[], &s2, &[Seg { mode: Mode::Ascii, len: 1, flag: true }, Seg { mode: Mode::C40, len: 3, flag: true }, Seg { mode: Mode::Base256, len: l, flag }], &caps, 3, w);
                }
            }
        }
    });
    // 3c. every capacity filled (or nearly) by one run of each mode: the longest messages a symbol can
    //     carry (3116 digits, 2335 C40 characters ... in 144x144)
    ctx.par(caps.len() as u64, |c, w| {
        let cap = caps[c as usize];
        w.label(|| format!("full-capacity runs, capacity {}", cap));
        // ASCII digit pairs and plain ASCII
        for n in (2 * cap).saturating_sub(3)..=2 * cap {
            let s = vec![b'7'; n];
            replay_script(&[], &s, &[Seg { mode: Mode::Ascii, len: n, flag: true }], &[cap], 1, w);
        }
        for n in cap.saturating_sub(1)..=cap {
            let s = vec![b'A'; n];
            if n > 0 {
                replay_script(&[], &s, &[Seg { mode: Mode::Ascii, len: n, flag: false }], &[cap], 1, w);
            }
        }
        for (mode, ch, num, den) in [(Mode::C40, b'A', 3usize, 2usize), (Mode::Text, b'a', 3, 2), (Mode::X12, b'A', 3, 2), (Mode::Edifact, b'A', 4, 3), (Mode::Base256, 0xE1u8, 1, 1)] {
            let maxn = cap.saturating_sub(1) * num / den;
            for n in maxn.saturating_sub(5)..=maxn {
                if n == 0 {
                    continue;
                }
                let s = vec![ch; n];
                for flag in [true, false] {
                    replay_script(&[], &s, &[Seg { mode, len: n, flag }], &[cap], 1, w);
                }
            }
        }
    });
    // 3b. padding at every position: for every capacity, 0..3 ASCII characters then pads to the end
    ctx.seq(|w| {
        w.label(|| "pads at every position of every capacity".into());
        for cap in &caps {
            for d in 0..=3usize.min(*cap) {
                let s = vec![b'A'; d];
                let segs: Vec<Seg> = if d == 0 { vec![] } else { vec![Seg { mode: Mode::Ascii, len: d, flag: true }] };
                replay_script(&[], &s, &segs, &[*cap], 1, w);
            }
        }
    });
    for header in [236u8, 237, 232] {
        let fam = Family::Over { alpha: SIGMA8.to_vec(), min: 0, max: ctx.tier.pick(3, 4) };
        let n = fam.size();
        ctx.par((n + 7) / 8, |c, w| {
            w.label(|| format!("header {} chunk {}", header, c));
            let mut s = Vec::new();
            for i in c * 8..((c + 1) * 8).min(n) {
                fam.get(i, &mut s);
                let mut all: Vec<Vec<Seg>> = Vec::new();
                let mut st = Stats::default();
                scripts(&s, 0, &[], 2, &mut st, &mut |segs, _| all.push(segs.to_vec()));
                w.stats.add("script_nodes", st.counters.get("script_nodes").copied().unwrap_or(0));
                w.stats.add("script_edges", st.counters.get("script_edges").copied().unwrap_or(0));
                for segs in &all {
                    replay_script(&[header], &s, segs, &caps, 3, w);
                }
            }
        });
    }
    let cov = json!({
        "states": ctx.counter("script_nodes"),
        "transitions": ctx.counter("script_edges"),
        "traces_validated_against_impl": ctx.counter("traces_validated"),
        "evaluations": ctx.evaluations(),
        "distinct_nontrivial": ctx.counter("nontrivial"),
        "rule": "states = (string, script prefix) nodes of the script tree of the reference encoder R6, transitions = script extensions (mode x run length x termination form); every complete script that R6 can legally realise \
(strict tier: forms spelled out by ISO/IEC 16022) is materialised for up to 5 admissible real symbol capacities, decoded by R5 (model self-consistency, engine error otherwise) and replayed against data::decode_data and decode_str. \
Programs: all strings over an 8-letter class alphabet up to the tier's length with all scripts (longer strings with a bounded number of latches); every byte value in runs of every mode that can carry it, at every phase of a packing group (0..4 fillers before, 0..2 after), the run ending with an explicit unlatch and ending with the symbol, at the start of the stream and after an ASCII character; all strings over a 7-letter alphabet with high bytes (0x80, 0x9F, 0xE1, 0xFF, RS, A, a) up to length 4 (5); a filler run of 1..kmax characters in each mode (with and without unlatch) followed by every tail of length <= 2 (3) with all scripts; \
Base256 fields of length 1..1555 (both sides of every multiple of 250) with explicit and with zero length; pads from positions 1..4 to the end of every capacity; every capacity filled or nearly filled by a single run of each mode (up to 3116 digits and 2335 C40/Text/X12 characters in 144x144); macro 05/06 and FNC1 headers. non-trivial = materialised script with a non-ASCII run.",
        "exhaustive": true,
        "scripts_materialised": ctx.counter("scripts_materialised"),
        "distinct_run_end_forms": ctx.distinct("run_end_forms"),
    });
    ctx.finish("model_checking", cov, vec![
        "only strict-tier forms are generated: a decoder must accept those; it need not accept de-facto forms".into(),
        "capacities are the data capacities of real symbols only".into(),
    ])
}

pub fn replay(case: &Value) -> Result<(), String> {
    let header = unhex(case["header"].as_str().unwrap_or(""));
    let s = unhex(case["in"].as_str().ok_or("in")?);
    let stream = unhex(case["stream"].as_str().ok_or("stream")?);
    let mut expect = Vec::new();
    match header.first() {
        Some(236) => { expect.extend_from_slice(gen::MACRO05); expect.extend(&s); expect.extend_from_slice(gen::MACRO_TRAIL); }
        Some(237) => { expect.extend_from_slice(gen::MACRO06); expect.extend(&s); expect.extend_from_slice(gen::MACRO_TRAIL); }
        _ => expect.extend(&s),
    }
    eval(&stream, &expect, &mut Stats::default())
}
