//! Shared pieces of the encode-side properties: the standard sweep and observation helpers.

use datamatrix::data::DataEncodingError;
use datamatrix::DataMatrix;
use serde_json::{json, Value};

use crate::bridge::{Cfg, ListMask, ALL_MODES};
use crate::explore::{guarded, Tier};
use crate::gen::{self, Family, Part, SIGMA10, SIGMA8};
use crate::refmodel::decoder::{Mode, Parse};

/// Which flavour of the standard sweep a property wants.
#[derive(Clone, Copy, PartialEq, Eq)]
pub enum Flavor {
    /// C01/C02/C18: many inputs, moderate configuration product
    RoundTrip,
    /// C13: all 63 mode sets
    AllModeSets,
    /// C11: also the empty list, 64 mode sets
    Totality,
}

pub const NO_ASCII: u8 = ALL_MODES & !1;

/// The standard encode sweep of DESIGN.md §6 C01 (quick / thorough).
pub fn std_sweep(tier: Tier, flavor: Flavor) -> Vec<Part> {
    let d = ListMask::default_list();
    let a = ListMask::all();
    let on = [true];
    let off = [false];
    let both = [false, true];
    let mq = gen::modes_quick();
    let lq = gen::lists_quick();
    let sq = |r, c| ListMask::single(gen::idx(r, c));
    let mut parts: Vec<Part> = Vec::new();
    let mode_sets: Vec<u8> = match flavor {
        Flavor::AllModeSets => gen::modes_all(),
        Flavor::Totality => (0..64).collect(),
        Flavor::RoundTrip => mq.clone(),
    };
    let lists_small: Vec<ListMask> = match flavor {
        Flavor::Totality => {
            let mut l = lq.clone();
            l.push(ListMask(0));
            l
        }
        _ => lq.clone(),
    };

    parts.push(Part { name: "named", family: Family::list(gen::named_inputs()), cfgs: gen::cfgs(&mode_sets, &lists_small, &both, &both) });
    // ES-A
    parts.push(Part {
        name: "ES-A full<=2 x mode sets",
        family: Family::Full { min: 0, max: 2 },
        cfgs: gen::cfgs(&mode_sets, &[d], &on, &off),
    });
    parts.push(Part {
        name: "ES-A full<=2 x lists",
        family: Family::Full { min: 0, max: 2 },
        cfgs: gen::cfgs(&[ALL_MODES], &[a, sq(10, 10), sq(12, 12)], &on, &both),
    });
    // ES-B
    let b_cfgs = if flavor == Flavor::RoundTrip {
        let mut c = gen::cfgs(&mq, &lq, &on, &off);
        c.extend(gen::cfgs(&mq, &[d, sq(12, 12)], &on, &on));
        c
    } else {
        let mut c = gen::cfgs(&mode_sets, &[d, a, sq(10, 10), sq(12, 12), sq(14, 14), sq(8, 32)], &on, &off);
        c.extend(gen::cfgs(&mq, &lists_small, &on, &off));
        c
    };
    parts.push(Part { name: "ES-B sigma10<=4", family: Family::Over { alpha: SIGMA10.to_vec(), min: 0, max: 4 }, cfgs: b_cfgs });
    let mut c5 = gen::cfgs(&[ALL_MODES], &[d, a, sq(14, 14), sq(8, 32), sq(16, 16)], &on, &off);
    c5.extend(gen::cfgs(&mq[1..], &[d], &on, &off));
    if flavor != Flavor::RoundTrip && tier == Tier::Thorough {
        c5 = gen::cfgs(&mode_sets, &[d, a, sq(14, 14), sq(8, 32), sq(16, 16)], &on, &off);
    }
    parts.push(Part { name: "ES-B sigma10=5", family: Family::Over { alpha: SIGMA10.to_vec(), min: 5, max: 5 }, cfgs: c5 });
    // ES-B2: a 5-letter alphabet (one letter per character class) up to length 8
    parts.push(Part {
        name: "ES-B2 sigma5 6..8",
        family: Family::Over { alpha: vec![b'A', b'a', b'1', b'*', 0x80], min: 6, max: tier.pick(8, 9) },
        cfgs: gen::cfgs(&[ALL_MODES], &[d], &on, &off),
    });
    // ES-C
    parts.push(Part { name: "ES-C contexts", family: gen::es_c(false), cfgs: gen::cfgs(&mq, &[d, a], &on, &off) });
    // ES-D
    parts.push(Part {
        name: "ES-D shifted tails",
        family: gen::es_d(tier.pick(24, 64), &SIGMA8, tier.pick(2, 3)),
        cfgs: gen::cfgs(&mq, &[d, a], &on, &off),
    });
    // ES-I
    parts.push(Part {
        name: "ES-I multi-run inputs",
        family: gen::es_i(tier.pick(14, 24), tier.pick(5, 7)),
        cfgs: if flavor == Flavor::AllModeSets {
            let mut m: Vec<u8> = (1..64u8).filter(|m| m & 1 == 0).collect();
            m.push(ALL_MODES);
            gen::cfgs(&m, &[d], &on, &off)
        } else {
            gen::cfgs(&[ALL_MODES, NO_ASCII], &[d, a], &on, &off)
        },
    });
    // ES-E
    let mut ce = gen::cfgs(&[ALL_MODES], &[d, a], &on, &off);
    ce.extend(gen::cfgs(&[0x21, NO_ASCII], &[d], &on, &off));
    parts.push(Part { name: "ES-E length sweep", family: gen::es_e(tier == Tier::Thorough), cfgs: ce });
    // ES-F
    parts.push(Part {
        name: "ES-F macro shapes",
        family: gen::es_f(tier.pick(2, 3)),
        cfgs: gen::cfgs(&[ALL_MODES, 1, NO_ASCII], &[d], &both, &both),
    });
    // ES-K: every symbol as a single-symbol list (and as the largest of a two-symbol list) at its
    // capacity boundaries
    for si in 0..48 {
        let c = crate::refmodel::symbols::SYMBOLS[si].data;
        let single = ListMask::single(si);
        let pair = ListMask::of(&[gen::idx(10, 10), si]);
        parts.push(Part { name: "ES-K capacity boundaries of a single symbol", family: gen::es_k(c), cfgs: gen::cfgs(&[ALL_MODES], &[single, pair], &on, &off) });
    }
    parts.push(Part { name: "ES-P run + island + run + foreign tail", family: gen::es_p(), cfgs: gen::cfgs(&[ALL_MODES, 0x11, 0x09, 0x03, 0x05], &[d, a], &on, &off) });
    parts.push(Part { name: "ES-N islands between dense runs", family: gen::es_n(tier.pick(8, 12)), cfgs: gen::cfgs(&mq, &[d, a], &on, &off) });
    // ES-M: multi-run inputs near the capacity of small single-symbol lists under restricted mode sets
    {
        let singles = [sq(12, 12), sq(14, 14), sq(16, 16), sq(18, 18), sq(20, 20), sq(8, 32), sq(12, 26)];
        let sets: Vec<u8> = if flavor == Flavor::RoundTrip { vec![NO_ASCII, 0x02, 0x10] } else { vec![NO_ASCII, 0x02, 0x04, 0x08, 0x10, 0x20, 0x06, 0x18, 0x30] };
        parts.push(Part { name: "ES-M multi-run inputs x small single lists x restricted mode sets", family: gen::es_i(tier.pick(14, 24), tier.pick(4, 6)), cfgs: gen::cfgs(&sets, &singles, &on, &off) });
    }
    parts.push(Part { name: "ES-Q Base256 run ending at a symbol capacity + tail", family: gen::es_q(), cfgs: gen::cfgs(&[ALL_MODES, 0x21], &[d, a], &on, &off) });
    parts.push(Part { name: "ES-R mixed inputs whose single Base256 field fills a capacity", family: gen::es_r(), cfgs: gen::cfgs(&[ALL_MODES, 0x21], &[d, a], &on, &off) });
    parts.push(Part { name: "ES-T long run across 255/256 and 511/512 + short tail of another class", family: gen::es_t(), cfgs: gen::cfgs(&[ALL_MODES, NO_ASCII], &[d], &on, &off) });
    parts.push(Part { name: "ES-U every byte value + EDIFACT run of 4m + short foreign tail", family: gen::es_u(), cfgs: gen::cfgs(&[ALL_MODES], &[d, a], &on, &off) });
    parts.push(Part { name: "ES-V run of one class + whole EDIFACT groups + short foreign tail", family: gen::es_v(), cfgs: gen::cfgs(&[ALL_MODES], &[d, a], &on, &off) });
    parts.push(Part { name: "ES-J2 long runs + EDIFACT middle + suffix", family: gen::es_j2(), cfgs: gen::cfgs(&[ALL_MODES, 0x31], &[d], &on, &off) });
    parts.push(Part {
        name: "ES-F2 macro token sequences",
        family: gen::es_f_tokens(tier.pick(4, 5)),
        cfgs: gen::cfgs(&[ALL_MODES, NO_ASCII], &[d], &both, &both),
    });
    if tier == Tier::Thorough {
        let lt = gen::lists_thorough();
        parts.push(Part {
            name: "T: ES-A full=3",
            family: Family::Full { min: 3, max: 3 },
            cfgs: gen::cfgs(&[ALL_MODES], &[d], &on, &off),
        });
        parts.push(Part {
            name: "T: ES-B sigma10 6..7",
            family: Family::Over { alpha: SIGMA10.to_vec(), min: 6, max: 7 },
            cfgs: gen::cfgs(&[ALL_MODES], &[d], &on, &off),
        });
        parts.push(Part {
            name: "T: ES-B sigma10<=4 x 63 mode sets x thorough lists",
            family: Family::Over { alpha: SIGMA10.to_vec(), min: 0, max: 4 },
            cfgs: gen::cfgs(&gen::modes_all(), &lt, &on, &off),
        });
        parts.push(Part {
            name: "T: ES-B sigma10=5 x 63 mode sets",
            family: Family::Over { alpha: SIGMA10.to_vec(), min: 5, max: 5 },
            cfgs: gen::cfgs(&gen::modes_all(), &[d, a, sq(14, 14), sq(8, 32), sq(16, 16), sq(12, 26)], &on, &off),
        });
        parts.push(Part { name: "T: ES-C pairs", family: gen::es_c(true), cfgs: gen::cfgs(&mq, &[d], &on, &off) });
    }
    parts
}

/// Outcome of one guarded encode call.
pub enum Enc {
    Panic(String),
    Refused(DataEncodingError),
    Ok(DataMatrix),
}

pub fn encode(cfg: &Cfg, input: &[u8]) -> Enc {
    match guarded(|| cfg.encode(input)) {
        Err(p) => Enc::Panic(p),
        Ok(Err(e)) => Enc::Refused(e),
        Ok(Ok(dm)) => Enc::Ok(dm),
    }
}

/// Signature of the mode structure of a parse (for non-vacuity statistics).
pub fn parse_signature(p: &Parse) -> u64 {
    let mut h = 0xABCDu64;
    for (_, m) in &p.latches {
        h = crate::explore::hash_mix(h, *m as u64 + 1);
    }
    for (m, e) in &p.run_ends {
        h = crate::explore::hash_mix(h, (*m as u64) << 8 | *e as u64);
    }
    h = crate::explore::hash_mix(h, p.macro_cw.unwrap_or(0) as u64);
    crate::explore::hash_mix(h, p.fnc1_start as u64)
}

/// Record which (carrier mode, byte value) pairs and which run-end forms occurred.
pub fn note_parse(st: &mut crate::explore::Stats, p: &Parse) {
    for (b, m) in p.body.iter().zip(p.carriers.iter()) {
        st.distinct("carrier_byte_pairs", (*m as u64) << 8 | *b as u64);
    }
    for (m, e) in &p.run_ends {
        st.distinct("run_end_forms", (*m as u64) << 8 | *e as u64);
    }
    st.distinct("parse_signatures", parse_signature(p));
}

pub fn nontrivial_parse(p: &Parse) -> bool {
    !p.latches.is_empty() || p.macro_cw.is_some() || p.fnc1_start || p.carriers.iter().any(|m| *m != Mode::Ascii)
}

pub fn case_size(input: &[u8], cfg: &Cfg) -> u64 {
    // order violations: shortest input first, then simplest configuration
    (input.len() as u64) << 20
        | ((cfg.modes != ALL_MODES) as u64) << 12
        | ((cfg.list != ListMask::default_list()) as u64) << 11
        | (cfg.fnc1 as u64) << 10
        | ((!cfg.macros) as u64) << 9
}

pub fn err_json(e: &impl std::fmt::Debug) -> Value {
    json!(format!("{:?}", e))
}
