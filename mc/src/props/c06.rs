//! C06 — error codewords conform to the ISO/IEC 16022 Reed-Solomon code (R1, R2).

use datamatrix::errorcode::encode_error;
use serde_json::{json, Value};

use crate::bridge::SIZES;
use crate::explore::{guarded, hex, unhex, Ctx, Stats, Tier};
use crate::refmodel::{gf, symbols::SYMBOLS};

pub fn eval(si: usize, data: &[u8], st: &mut Stats) -> Result<(), String> {
    let sy = &SYMBOLS[si];
    let ec = guarded(|| encode_error(data, SIZES[si])).map_err(|p| format!("encode_error: {}", p))?;
    if ec.len() != sy.ec {
        return Err(format!("{} error codewords, the standard has {}", ec.len(), sy.ec));
    }
    // independent path 1: all syndromes of every interleaved block vanish
    let mut cw = data.to_vec();
    cw.extend_from_slice(&ec);
    let k = sy.ec_per_block();
    for b in 0..sy.blocks {
        let blk = gf::block_of(sy, &cw, b);
        let syn = gf::syndromes(&blk, k);
        if let Some(j) = syn.iter().position(|s| *s != 0) {
            return Err(format!("block {}: syndrome {} is {} (block of {} codewords)", b, j + 1, syn[j], blk.len()));
        }
    }
    // independent path 2: the reference systematic encoder gives the same codewords
    let want = gf::ec_of_symbol(sy, data);
    if want != ec {
        let j = want.iter().zip(ec.iter()).position(|(a, b)| a != b).unwrap();
        return Err(format!("error codeword {}: {} (reference {})", j, ec[j], want[j]));
    }
    st.count("vectors");
    if data.iter().any(|d| *d != 0) {
        st.count("nontrivial");
    }
    Ok(())
}

fn lcg_vec(seed: u64, n: usize) -> Vec<u8> {
    let mut s = seed.wrapping_mul(0x9E3779B97F4A7C15) | 1;
    (0..n)
        .map(|_| {
            s = s.wrapping_mul(6364136223846793005).wrapping_add(1442695040888963407);
            (s >> 33) as u8
        })
        .collect()
}

fn desc(si: usize, data: &[u8]) -> Value {
    json!({"size": crate::bridge::size_name(si), "data": hex(data)})
}

pub fn run(ctx: &Ctx) -> i32 {
    // (size, kind, index) work items
    #[derive(Clone, Copy)]
    enum Job {
        Unit(usize, usize),      // size, position: values 1,2,0x80,0xFF
        Structured(usize),       // zero, ones, LCG x3
        All10(u32),              // 10x10: all data vectors with first byte fixed
        Pairs(usize, usize),     // size, first position: all vectors with <= 2 non-zero positions
        AllValues(usize, usize), // size, position: all 255 values at that position (every field product with the generator)
        ZeroFeedback(usize, usize), // size, block: data chosen so that the feedback of the division register vanishes 1..3 times in a row at every offset
    }
    let mut jobs = Vec::new();
    for si in 0..48 {
        jobs.push(Job::Structured(si));
        for p in 0..SYMBOLS[si].data {
            jobs.push(Job::Unit(si, p));
        }
    }
    for b in 0..256u32 {
        jobs.push(Job::All10(b));
    }
    for si in 0..48 {
        let n = SYMBOLS[si].data;
        let positions: Vec<usize> = if ctx.tier == Tier::Thorough && SYMBOLS[si].total() <= 300 { (0..n).collect() } else { let mut p = vec![0, n / 2, n - 1]; p.extend(n.saturating_sub(SYMBOLS[si].blocks)..n); p.sort_unstable(); p.dedup(); p };
        for p in positions {
            jobs.push(Job::AllValues(si, p));
        }
    }
    for si in 0..48 {
        let nb = SYMBOLS[si].blocks;
        for b in 0..nb {
            if ctx.tier == Tier::Quick && nb > 2 && b != 0 && b != nb - 1 {
                continue;
            }
            jobs.push(Job::ZeroFeedback(si, b));
        }
    }
    let pair_sizes: Vec<usize> = if ctx.tier == Tier::Thorough { vec![1, 24, 2, 25] } else { vec![1, 24] };
    for si in pair_sizes {
        for p in 0..SYMBOLS[si].data {
            jobs.push(Job::Pairs(si, p));
        }
    }
    ctx.par(jobs.len() as u64, |c, w| {
        match jobs[c as usize] {
            Job::Unit(si, p) => {
                w.label(|| format!("unit vectors {} pos {}", SYMBOLS[si].name(), p));
                let mut d = vec![0u8; SYMBOLS[si].data];
                for v in [1u8, 2, 0x80, 0xFF] {
                    d[p] = v;
                    w.sample(|| desc(si, &d));
                    w.check(si as u64, || desc(si, &d), |st| eval(si, &d, st));
                }
            }
            Job::Structured(si) => {
                w.label(|| format!("structured vectors {}", SYMBOLS[si].name()));
                let n = SYMBOLS[si].data;
                let mut vs = vec![vec![0u8; n], vec![0xFF; n]];
                for s in 1..=3 {
                    vs.push(lcg_vec(s * 1000 + si as u64, n));
                }
                for d in vs {
                    w.check(si as u64, || desc(si, &d), |st| eval(si, &d, st));
                }
            }
            Job::All10(b) => {
                w.label(|| format!("10x10 all vectors with first byte {}", b));
                let mut d = [b as u8, 0, 0];
                for x in 0..=255u8 {
                    for y in 0..=255u8 {
                        d[1] = x;
                        d[2] = y;
                        w.check(0, || desc(0, &d), |st| eval(0, &d, st));
                    }
                }
                w.stats.count("exhaustive_10x10_slices");
            }
            Job::AllValues(si, p) => {
                w.label(|| format!("all values {} pos {}", SYMBOLS[si].name(), p));
                let mut d = vec![0u8; SYMBOLS[si].data];
                // a second non-zero codeword in the same block keeps the register busy
                if p >= SYMBOLS[si].blocks {
                    d[p - SYMBOLS[si].blocks] = 0x35;
                }
                for v in 1..=255u8 {
                    d[p] = v;
                    w.check(si as u64, || desc(si, &d), |st| eval(si, &d, st));
                }
            }
            Job::ZeroFeedback(si, b) => {
                w.label(|| format!("zero-feedback runs {} block {}", SYMBOLS[si].name(), b));
                let sy = &SYMBOLS[si];
                let k = sy.ec_per_block();
                let (didx, _) = gf::block_indices(sy, b);
                let nd = didx.len();
                let base = lcg_vec(7000 + si as u64, sy.data);
                let step = if ctx.tier == Tier::Quick && sy.data > 300 { 3 } else { 1 };
                for off in (1..nd).step_by(step) {
                    for run in 1..=3usize {
                        if off + run > nd {
                            continue;
                        }
                        let mut d = base.clone();
                        // block data before the run: the register holds ec_of_block(prefix); the feedback of the
                        // next codeword x is x ^ register[0], so x = register[0] makes it vanish
                        let mut prefix: Vec<u8> = didx[..off].iter().map(|g| d[*g]).collect();
                        for r in 0..run {
                            let reg = gf::ec_of_block(&prefix, k);
                            let x = reg[0];
                            d[didx[off + r]] = x;
                            prefix.push(x);
                        }
                        w.check(si as u64, || desc(si, &d), |st| { eval(si, &d, st)?; st.count("zero_feedback_vectors"); Ok(()) });
                    }
                }
            }
            Job::Pairs(si, p) => {
                w.label(|| format!("pairs {} first pos {}", SYMBOLS[si].name(), p));
                let n = SYMBOLS[si].data;
                for q in p + 1..n {
                    let mut d = vec![0u8; n];
                    for x in 1..=255u8 {
                        d[p] = x;
                        for y in 1..=255u8 {
                            d[q] = y;
                            w.check(si as u64, || desc(si, &d), |st| eval(si, &d, st));
                        }
                    }
                }
            }
        }
    });
    let cov = json!({
        "evaluations": ctx.evaluations(),
        "distinct_nontrivial": ctx.counter("nontrivial"),
        "rule": "48 sizes x {unit vectors v*e_p for every data position p, v in {1,2,0x80,0xFF}; zero; all-0xFF; 3 LCG vectors}; 10x10: all 256^3 data vectors (exhaustive); \
12x12 and 8x18 (thorough: also 14x14, 8x32): all vectors with exactly two non-zero positions; all 255 values at the first, middle and last data positions of every block of every size (every product of a field element with every generator coefficient; thorough: every position of the sizes up to 300 codewords). zero-feedback runs: LCG data in which, at every offset of a block (first and last block of multi-block sizes; thorough: every block), the next 1..3 data codewords equal the head of the division register, so that the feedback multiplier vanishes 1, 2 or 3 times in a row while the register is busy (a 2^-8 .. 2^-24 coincidence for random data). Vectors are distinct by construction; non-trivial = non-zero vector. \
Oracle: EC count of R2; all k syndromes of every interleaved block zero in the shift-and-xor field R1; equality with the reference systematic encoder (unit vectors at a block's last data position pin the generator polynomial).",
        "exhaustive": true,
        "sizes": 48,
    });
    ctx.finish("exploration", cov, vec![
        "R1 is checked at start-up against the generator coefficients and the '123456' example printed in ISO/IEC 16022".into(),
        "linearity of the code: unit vectors at every position determine the encoder on all vectors if it is linear; linearity itself is sampled by the structured and the exhaustive 10x10 vectors".into(),
    ])
}

pub fn replay(case: &Value) -> Result<(), String> {
    let name = case["size"].as_str().ok_or("size")?;
    let si = (0..48).find(|i| crate::bridge::size_name(*i) == name).ok_or("unknown size")?;
    eval(si, &unhex(case["data"].as_str().ok_or("data")?), &mut Stats::default())
}
