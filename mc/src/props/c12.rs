//! C12 — symbol catalogue and symbol-list filters match the standards (R2, R4).

use datamatrix::errorcode::encode_error;
use datamatrix::placement::MatrixMap;
use datamatrix::{DataMatrix, DataMatrixBuilder, EncodationType, SymbolList};
use serde_json::{json, Value};
use std::ops::Bound;

use crate::bridge::{self, ListMask, SIZES};
use crate::explore::{guarded, Ctx, Stats};
use crate::gen;
use crate::refmodel::render::{classify, Module};
use crate::refmodel::symbols::SYMBOLS;

fn mask_of(l: &SymbolList) -> u64 {
    l.iter().fold(0u64, |m, s| m | 1 << bridge::ref_index(s))
}

fn mask_where(base: u64, pred: impl Fn(usize) -> bool) -> u64 {
    (0..48).filter(|i| base >> i & 1 == 1 && pred(*i)).fold(0, |m, i| m | 1 << i)
}

fn names(mask: u64) -> Vec<String> {
    ListMask(mask).indices().iter().map(|i| SYMBOLS[*i].name()).collect()
}

/// Attributes of one size against R2 / R4.
pub fn eval_size(si: usize, st: &mut Stats) -> Result<(), String> {
    let sy = &SYMBOLS[si];
    let dm = guarded(|| DataMatrix::encode(b"", SIZES[si])).map_err(|p| format!("encode: {}", p))?.map_err(|e| format!("encode(b\"\") fails: {:?}", e))?;
    if dm.size != SIZES[si] {
        return Err(format!("encode with a single size returns {:?}", dm.size));
    }
    if dm.data_codewords().len() != sy.data {
        return Err(format!("{} data codewords, standard: {}", dm.data_codewords().len(), sy.data));
    }
    if dm.codewords().len() != sy.total() {
        return Err(format!("{} codewords, standard: {}", dm.codewords().len(), sy.total()));
    }
    let bm = dm.bitmap();
    if bm.width() != sy.cols || bm.height() != sy.rows {
        return Err(format!("bitmap {} rows x {} columns, standard: {} x {}", bm.height(), bm.width(), sy.rows, sy.cols));
    }
    // region layout: every finder / alignment module where R4 puts it
    for r in 0..sy.rows {
        for c in 0..sy.cols {
            if let Module::Border(d) = classify(sy, r, c) {
                if bm.bits()[r * sy.cols + c] != d {
                    return Err(format!("module (row {}, col {}) should be a {} finder/alignment module ({}x{} regions of {}x{})", r, c, if d { "dark" } else { "light" }, sy.reg_v, sy.reg_h, sy.reg_rows, sy.reg_cols));
                }
            }
        }
    }
    // the size is detected from the pixel dimensions
    let (_, detected) = MatrixMap::try_from_bits(bm.bits(), bm.width()).map_err(|e| format!("try_from_bits of its own rendering: {:?}", e))?;
    if detected != SIZES[si] {
        return Err(format!("try_from_bits detects {:?}", detected));
    }
    // interleaving: a unit data vector at position p influences exactly the EC positions = p mod B
    let mut classes = std::collections::BTreeSet::new();
    for p in 0..sy.data {
        let mut d = vec![0u8; sy.data];
        d[p] = 1;
        let ec = encode_error(&d, SIZES[si]);
        if ec.len() != sy.ec {
            return Err(format!("{} error codewords, standard: {}", ec.len(), sy.ec));
        }
        let support: Vec<usize> = (0..ec.len()).filter(|j| ec[*j] != 0).collect();
        if support.is_empty() || support.iter().any(|j| j % sy.blocks != p % sy.blocks) {
            return Err(format!("data codeword {} influences error codewords {:?}; the standard has {} interleaved blocks", p, &support[..support.len().min(12)], sy.blocks));
        }
        // exactly the error codewords the standard's interleaving gives (reference encoder R1 on R2's layout)
        let want = crate::refmodel::gf::ec_of_symbol(sy, &d);
        let want_support: Vec<usize> = (0..want.len()).filter(|j| want[*j] != 0).collect();
        if support != want_support {
            return Err(format!(
                "data codeword {} influences {} error codewords, with {} blocks of {} error codewords the standard gives {}",
                p, support.len(), sy.blocks, sy.ec_per_block(), want_support.len()
            ));
        }
        if support.len() != sy.ec_per_block() {
            // a unit vector times x^k mod g can have zero coefficients, but it never does for these generators at these lengths
            st.count("unit_response_with_zero_coefficient");
        }
        classes.insert(p % sy.blocks);
    }
    if classes.len() != sy.blocks.min(sy.data) {
        return Err("number of interleaved blocks".into());
    }
    st.count("nontrivial");
    Ok(())
}

#[derive(Clone, Copy, Debug, PartialEq, Eq)]
pub enum Filter {
    Square,
    Rect,
    Width(Bound<usize>, Bound<usize>),
    Height(Bound<usize>, Bound<usize>),
}

fn in_bounds(x: usize, lo: Bound<usize>, hi: Bound<usize>) -> bool {
    (match lo {
        Bound::Included(a) => x >= a,
        Bound::Excluded(a) => x > a,
        Bound::Unbounded => true,
    }) && (match hi {
        Bound::Included(b) => x <= b,
        Bound::Excluded(b) => x < b,
        Bound::Unbounded => true,
    })
}

fn apply(l: SymbolList, f: Filter) -> SymbolList {
    match f {
        Filter::Square => l.enforce_square(),
        Filter::Rect => l.enforce_rectangular(),
        Filter::Width(a, b) => l.enforce_width_in((a, b)),
        Filter::Height(a, b) => l.enforce_height_in((a, b)),
    }
}

fn expect(base: u64, f: Filter) -> u64 {
    mask_where(base, |i| {
        let s = &SYMBOLS[i];
        match f {
            Filter::Square => s.rows == s.cols,
            Filter::Rect => s.rows != s.cols,
            Filter::Width(a, b) => in_bounds(s.cols, a, b),
            Filter::Height(a, b) => in_bounds(s.rows, a, b),
        }
    })
}

fn bound_json(b: Bound<usize>) -> Value {
    match b {
        Bound::Included(x) => json!(format!("={}", x)),
        Bound::Excluded(x) => json!(format!("{}", x)),
        Bound::Unbounded => json!("-"),
    }
}

fn bound_from(v: &Value) -> Bound<usize> {
    let s = v.as_str().unwrap_or("-");
    if s == "-" {
        Bound::Unbounded
    } else if let Some(x) = s.strip_prefix('=') {
        Bound::Included(x.parse().unwrap())
    } else {
        Bound::Excluded(s.parse().unwrap())
    }
}

fn filter_json(f: Filter) -> Value {
    match f {
        Filter::Square => json!("square"),
        Filter::Rect => json!("rect"),
        Filter::Width(a, b) => json!(["width", bound_json(a), bound_json(b)]),
        Filter::Height(a, b) => json!(["height", bound_json(a), bound_json(b)]),
    }
}

fn filter_from(v: &Value) -> Filter {
    match v {
        Value::String(s) if s == "square" => Filter::Square,
        Value::String(_) => Filter::Rect,
        Value::Array(a) => {
            let (lo, hi) = (bound_from(&a[1]), bound_from(&a[2]));
            if a[0] == "width" {
                Filter::Width(lo, hi)
            } else {
                Filter::Height(lo, hi)
            }
        }
        _ => panic!("filter"),
    }
}

/// A chain of filters applied to the default or the extended list.
pub fn eval_filters(extended: bool, fs: &[Filter], st: &mut Stats) -> Result<(), String> {
    let (mut l, mut want) = if extended { (SymbolList::with_extended_rectangles(), ListMask::all().0) } else { (SymbolList::default(), ListMask::default_list().0) };
    for f in fs {
        l = guarded(|| apply(l.clone(), *f)).map_err(|p| format!("filter {:?}: {}", f, p))?;
        want = expect(want, *f);
    }
    let got = mask_of(&l);
    if got != want {
        return Err(format!("filters {:?} keep {:?}, the predicate keeps {:?}", fs, names(got), names(want)));
    }
    if got.count_ones() as usize != l.iter().count() {
        return Err("list iterates an element twice".into());
    }
    if l.is_empty() != (want == 0) {
        return Err("is_empty disagrees with the content".into());
    }
    if want != 0 && want != ListMask::all().0 && want != ListMask::default_list().0 {
        st.count("nontrivial");
    }
    Ok(())
}

/// A white-list given in some order: iteration order, membership, symbol picked per length.
pub fn eval_whitelist(order: &[usize], with_encoding: bool, st: &mut Stats) -> Result<(), String> {
    let l = SymbolList::with_whitelist(order.iter().map(|i| SIZES[*i]));
    let want = ListMask::of(order).0;
    if mask_of(&l) != want {
        return Err(format!("white-list {:?} contains {:?}", names(want), names(mask_of(&l))));
    }
    for i in 0..48 {
        if l.contains(&SIZES[i]) != (want >> i & 1 == 1) {
            return Err(format!("contains({}) is wrong", SYMBOLS[i].name()));
        }
    }
    let it: Vec<usize> = l.iter().map(bridge::ref_index).collect();
    for w in it.windows(2) {
        if SYMBOLS[w[0]].data > SYMBOLS[w[1]].data {
            return Err(format!("iteration order {:?} is not by non-decreasing data capacity", it.iter().map(|i| SYMBOLS[*i].name()).collect::<Vec<_>>()));
        }
    }
    // the same order whatever the order of the white-list, and via IntoIterator
    let it2: Vec<usize> = l.clone().into_iter().map(bridge::ref_index).collect();
    if it2 != it {
        return Err("into_iter order differs from iter order".into());
    }
    // the same list through FromIterator, Extend (in two halves, reversed) and From<[_; N]>
    let via_collect: SymbolList = order.iter().rev().map(|i| SIZES[*i]).collect();
    let mut via_extend = SymbolList::with_whitelist(order[..order.len() / 2].iter().map(|i| SIZES[*i]));
    via_extend.extend(order[order.len() / 2..].iter().rev().map(|i| SIZES[*i]));
    if via_collect != l || via_extend != l {
        return Err("the list depends on how it was built (FromIterator / Extend)".into());
    }
    if via_extend.iter().map(bridge::ref_index).collect::<Vec<_>>() != it {
        return Err("iteration order depends on how the list was built".into());
    }
    // filters on a white-list behave like on the standard lists
    for (lo, hi) in [(10usize, 32usize), (0, 20), (18, 150)] {
        let wl = l.clone().enforce_width_in(lo..=hi);
        let want_w = mask_where(want, |i| SYMBOLS[i].cols >= lo && SYMBOLS[i].cols <= hi);
        if mask_of(&wl) != want_w {
            return Err(format!("enforce_width_in({}..={}) on the white-list keeps {:?}", lo, hi, names(mask_of(&wl))));
        }
        let hl = l.clone().enforce_height_in(lo..hi);
        let want_h = mask_where(want, |i| SYMBOLS[i].rows >= lo && SYMBOLS[i].rows < hi);
        if mask_of(&hl) != want_h {
            return Err(format!("enforce_height_in({}..{}) on the white-list keeps {:?}", lo, hi, names(mask_of(&hl))));
        }
    }
    if mask_of(&l.clone().enforce_square()) != mask_where(want, |i| SYMBOLS[i].is_square()) || mask_of(&l.clone().enforce_rectangular()) != mask_where(want, |i| !SYMBOLS[i].is_square()) {
        return Err("enforce_square / enforce_rectangular on the white-list".into());
    }
    if with_encoding {
        let maxcap = it.iter().map(|i| SYMBOLS[*i].data).max().unwrap_or(0);
        for k in 0..=maxcap + 1 {
            let data = vec![0x7Fu8; k];
            let r = guarded(|| DataMatrixBuilder::new().with_symbol_list(l.clone()).with_encodation_types(EncodationType::Ascii).encode(&data))
                .map_err(|p| format!("encode: {}", p))?;
            let want = it.iter().copied().find(|i| SYMBOLS[*i].data >= k);
            match (r, want) {
                (Ok(dm), Some(w)) => {
                    if bridge::ref_index(dm.size) != w {
                        return Err(format!("{} ASCII codewords: {:?} picked, first large enough in iteration order is {}", k, dm.size, SYMBOLS[w].name()));
                    }
                }
                (Err(_), None) => {}
                (Ok(dm), None) => return Err(format!("{} codewords fit {:?}?", k, dm.size)),
                (Err(e), Some(w)) => return Err(format!("{} ASCII codewords refused ({:?}) although {} is listed", k, e, SYMBOLS[w].name())),
            }
            st.count("picks_checked");
            // the same with 2k digits (k codewords with digit pairs), all modes enabled
            let digits = vec![b'1'; 2 * k];
            let r = guarded(|| DataMatrixBuilder::new().with_symbol_list(l.clone()).encode(&digits)).map_err(|p| format!("encode: {}", p))?;
            match (r, want) {
                (Ok(dm), Some(w)) => {
                    if bridge::ref_index(dm.size) != w {
                        return Err(format!("{} digits ({} codewords): {:?} picked, first large enough in iteration order is {}", 2 * k, k, dm.size, SYMBOLS[w].name()));
                    }
                }
                (Err(_), None) => {}
                (Ok(dm), None) => return Err(format!("{} digits fit {:?}?", 2 * k, dm.size)),
                (Err(e), Some(w)) => return Err(format!("{} digits ({} codewords) refused ({:?}) although {} is listed", 2 * k, k, e, SYMBOLS[w].name())),
            }
            st.count("picks_checked");
            // ... and as binary data: latch + one length codeword + (k - 2) bytes; from 250 bytes on the
            // length needs two codewords unless the field runs to the end of the symbol (length 0), so the
            // pick is still the first symbol with at least k codewords
            if k >= 3 {
                let bin: Vec<u8> = (0..k - 2).map(|i| 0x80 | (i as u8).wrapping_mul(37)).collect();
                let r = guarded(|| DataMatrixBuilder::new().with_symbol_list(l.clone()).encode(&bin)).map_err(|p| format!("encode: {}", p))?;
                let want_b = if k - 2 >= 250 { it.iter().copied().find(|i| SYMBOLS[*i].data == k || SYMBOLS[*i].data > k) } else { want };
                match (r, want_b) {
                    (Ok(dm), Some(w)) => {
                        if bridge::ref_index(dm.size) != w {
                            return Err(format!("{} binary bytes ({} codewords): {:?} picked, first large enough in iteration order is {}", k - 2, k, dm.size, SYMBOLS[w].name()));
                        }
                    }
                    (Err(_), None) => {}
                    (Ok(dm), None) => return Err(format!("{} binary bytes fit {:?}?", k - 2, dm.size)),
                    (Err(e), Some(w)) => return Err(format!("{} binary bytes ({} codewords) refused ({:?}) although {} is listed", k - 2, k, e, SYMBOLS[w].name())),
                }
                st.count("picks_checked");
            }
            // ... and as a macro 05 message: one macro codeword + (k - 1) digit pairs (macro
            // compaction is on by default); 9 envelope bytes must not count against the capacity
            if k >= 1 {
                let mut m = gen::MACRO05.to_vec();
                m.extend(std::iter::repeat(b'1').take(2 * (k - 1)));
                m.extend_from_slice(gen::MACRO_TRAIL);
                let r = guarded(|| DataMatrixBuilder::new().with_symbol_list(l.clone()).encode(&m)).map_err(|p| format!("encode: {}", p))?;
                match (r, want) {
                    (Ok(dm), Some(w)) => {
                        if bridge::ref_index(dm.size) != w {
                            return Err(format!("macro 05 message with {} digits ({} codewords): {:?} picked, first large enough in iteration order is {}", 2 * (k - 1), k, dm.size, SYMBOLS[w].name()));
                        }
                    }
                    (Err(_), None) => {}
                    (Ok(dm), None) => return Err(format!("macro 05 message of {} codewords fits {:?}?", k, dm.size)),
                    (Err(e), Some(w)) => return Err(format!("macro 05 message with {} digits ({} codewords) refused ({:?}) although {} is listed", 2 * (k - 1), k, e, SYMBOLS[w].name())),
                }
                st.count("picks_checked");
            }
        }
    }
    st.count("nontrivial");
    Ok(())
}

/// The symbol list given to the builder is the list that is used, whatever the order in which the
/// builder's options are set: all 24 orders of the four setters give the same symbol and codewords,
/// the picked symbol is in the list, and `encode_gs1` agrees with the builder.
pub fn eval_builder_order(order: &[usize], mode_bits: u8, macros: bool, fnc1: bool, data: &[u8], st: &mut Stats) -> Result<(), String> {
    let l = SymbolList::with_whitelist(order.iter().map(|i| SIZES[*i]));
    let modes = bridge::modes(mode_bits);
    let mut first: Option<Result<(usize, Vec<u8>), String>> = None;
    let mut perm = [0usize, 1, 2, 3];
    for p in 0..24 {
        // p-th permutation by factorial digits
        let mut items = vec![0usize, 1, 2, 3];
        let mut k = p;
        for (slot, f) in [6usize, 2, 1, 1].iter().enumerate() {
            perm[slot] = items.remove(k / f);
            k %= f;
        }
        let r = guarded(|| {
            let mut b = DataMatrixBuilder::new();
            for step in perm {
                b = match step {
                    0 => b.with_symbol_list(l.clone()),
                    1 => b.with_encodation_types(modes),
                    2 => b.with_macros(macros),
                    _ => b.with_fnc1_start(fnc1),
                };
            }
            b.encode(data)
        })
        .map_err(|p| format!("encode: {}", p))?;
        let r: Result<(usize, Vec<u8>), String> = match r {
            Ok(dm) => Ok((bridge::ref_index(dm.size), dm.codewords().to_vec())),
            Err(e) => Err(format!("{:?}", e)),
        };
        if let Ok((si, _)) = &r {
            if !order.contains(si) {
                return Err(format!("setter order {:?}: symbol {} picked, which is not in the list", perm, SYMBOLS[*si].name()));
            }
        }
        match &first {
            None => first = Some(r),
            Some(f) => {
                if *f != r {
                    let show = |x: &Result<(usize, Vec<u8>), String>| match x { Ok((si, _)) => SYMBOLS[*si].name(), Err(e) => e.clone() };
                    return Err(format!("setter order {:?} gives {}, the order [0, 1, 2, 3] (list, modes, macros, fnc1) gives {}", perm, show(&r), show(f)));
                }
            }
        }
    }
    if fnc1 && macros && mode_bits == bridge::ALL_MODES {
        let g = guarded(|| DataMatrix::encode_gs1(data, l.clone())).map_err(|p| format!("encode_gs1: {}", p))?;
        let g: Result<(usize, Vec<u8>), String> = match g {
            Ok(dm) => Ok((bridge::ref_index(dm.size), dm.codewords().to_vec())),
            Err(e) => Err(format!("{:?}", e)),
        };
        // encode_gs1 documents no macro handling of its own; only the symbol and refusal are compared
        match (&g, first.as_ref().unwrap()) {
            (Ok((a, _)), Ok((b, _))) if a == b => {}
            (Err(_), Err(_)) => {}
            (a, b) => return Err(format!("encode_gs1 gives {:?}, the builder with FNC1 start gives {:?}", a.as_ref().map(|x| SYMBOLS[x.0].name()), b.as_ref().map(|x| SYMBOLS[x.0].name()))),
        }
    }
    st.count("builder_orders_checked");
    st.count("nontrivial");
    Ok(())
}

/// A two-symbol list at its capacity boundaries: k - 1, k, k + 1 codewords (ASCII bytes and digit
/// pairs) around the capacity of either member: the pick is the first member in iteration order that
/// is large enough, a refusal only beyond the larger capacity.
pub fn eval_pair_boundaries(a: usize, b: usize, st: &mut Stats) -> Result<(), String> {
    let l = SymbolList::with_whitelist([SIZES[a], SIZES[b]]);
    let it: Vec<usize> = l.iter().map(bridge::ref_index).collect();
    let mut ks: Vec<usize> = Vec::new();
    for c in [SYMBOLS[a].data, SYMBOLS[b].data] {
        ks.extend([c - 1, c, c + 1]);
    }
    ks.sort_unstable();
    ks.dedup();
    for k in ks {
        let want = it.iter().copied().find(|i| SYMBOLS[*i].data >= k);
        for (what, data, ascii_only) in [("digits", vec![b'1'; 2 * k], false), ("ASCII bytes", vec![0x7Fu8; k], true)] {
            let r = guarded(|| {
                let b = DataMatrixBuilder::new().with_symbol_list(l.clone());
                if ascii_only { b.with_encodation_types(EncodationType::Ascii).encode(&data) } else { b.encode(&data) }
            })
            .map_err(|p| format!("encode: {}", p))?;
            match (r, want) {
                (Ok(dm), Some(w)) => {
                    if bridge::ref_index(dm.size) != w {
                        return Err(format!("{} codewords of {}: {:?} picked, first large enough in iteration order is {}", k, what, dm.size, SYMBOLS[w].name()));
                    }
                }
                (Err(_), None) => {}
                (Ok(dm), None) => return Err(format!("{} codewords of {} fit {:?}?", k, what, dm.size)),
                (Err(e), Some(w)) => return Err(format!("{} codewords of {} refused ({:?}) although {} is listed", k, what, e, SYMBOLS[w].name())),
            }
            st.count("picks_checked");
        }
    }
    st.count("nontrivial");
    Ok(())
}

fn range_forms(a: usize, b: usize) -> [(Bound<usize>, Bound<usize>); 2] {
    [(Bound::Included(a), Bound::Excluded(b)), (Bound::Included(a), Bound::Included(b))]
}

pub fn run(ctx: &Ctx) -> i32 {
    // 1. attributes
    ctx.par(48, |c, w| {
        let si = c as usize;
        w.label(|| format!("attributes {}", SYMBOLS[si].name()));
        w.sample(|| json!({"kind": "size", "size": bridge::size_name(si)}));
        w.check(0, || json!({"kind": "size", "size": bridge::size_name(si)}), |st| eval_size(si, st));
    });
    ctx.seq(|w| {
        // pixel dimensions identify a size uniquely (reference table) and the standard lists
        w.check(
            0,
            || json!({"kind": "lists"}),
            |st| {
                if mask_of(&SymbolList::default()) != ListMask::default_list().0 {
                    return Err(format!("default list is {:?}", names(mask_of(&SymbolList::default()))));
                }
                if mask_of(&SymbolList::with_extended_rectangles()) != ListMask::all().0 || mask_of(&SymbolList::all()) != ListMask::all().0 {
                    return Err("extended list is not all 48 sizes".into());
                }
                for i in 0..48 {
                    if SIZES[i].is_square() != SYMBOLS[i].is_square() || SIZES[i].is_dmre() != SYMBOLS[i].dmre {
                        return Err(format!("is_square/is_dmre of {}", SYMBOLS[i].name()));
                    }
                    let l: SymbolList = SIZES[i].into();
                    if mask_of(&l) != 1 << i {
                        return Err("From<SymbolSize>".into());
                    }
                }
                st.count("nontrivial");
                Ok(())
            },
        );
    });
    // 2. every range filter, bounds 0..=150
    let max = 150usize;
    ctx.par((max as u64 + 1) * 2, |c, w| {
        let a = (c / 2) as usize;
        let extended = c % 2 == 1;
        w.label(|| format!("range filters with lower bound {} extended {}", a, extended));
        let mut ranges: Vec<(Bound<usize>, Bound<usize>)> = Vec::new();
        for b in 0..=max {
            ranges.extend(range_forms(a, b));
        }
        ranges.push((Bound::Included(a), Bound::Unbounded));
        ranges.push((Bound::Unbounded, Bound::Excluded(a)));
        ranges.push((Bound::Unbounded, Bound::Included(a)));
        ranges.push((Bound::Excluded(a), Bound::Unbounded));
        if a == 0 {
            ranges.push((Bound::Unbounded, Bound::Unbounded));
        }
        for (lo, hi) in ranges {
            for f in [Filter::Width(lo, hi), Filter::Height(lo, hi)] {
                w.sample(|| json!({"kind": "filters", "extended": extended, "filters": [filter_json(f)]}));
                w.check(1, || json!({"kind": "filters", "extended": extended, "filters": [filter_json(f)]}), |st| eval_filters(extended, &[f], st));
            }
        }
    });
    // 3. compositions of up to three filters over the reduced bound set (distinct widths/heights +-1)
    let mut bounds: Vec<usize> = SYMBOLS.iter().flat_map(|s| [s.rows, s.cols]).flat_map(|x| [x - 1, x, x + 1]).collect();
    bounds.sort_unstable();
    bounds.dedup();
    let reduced: Vec<usize> = if ctx.tier == crate::explore::Tier::Thorough { bounds.clone() } else { bounds.iter().copied().filter(|b| [8, 10, 12, 16, 18, 20, 26, 32, 36, 48, 64, 144].contains(b)).collect() };
    let mut atoms: Vec<Filter> = vec![Filter::Square, Filter::Rect];
    for b in &reduced {
        atoms.push(Filter::Width(Bound::Included(*b), Bound::Unbounded));
        atoms.push(Filter::Width(Bound::Unbounded, Bound::Included(*b)));
        atoms.push(Filter::Height(Bound::Included(*b), Bound::Unbounded));
        atoms.push(Filter::Height(Bound::Unbounded, Bound::Excluded(*b)));
    }
    let na = atoms.len() as u64;
    ctx.par(na * na, |c, w| {
        let (i, j) = ((c / na) as usize, (c % na) as usize);
        w.label(|| format!("filter compositions {} {}", i, j));
        let d2 = |fs: &[Filter], ext: bool| json!({"kind": "filters", "extended": ext, "filters": fs.iter().map(|f| filter_json(*f)).collect::<Vec<_>>()});
        for ext in [false, true] {
            let fs2 = [atoms[i], atoms[j]];
            w.check(2, || d2(&fs2, ext), |st| eval_filters(ext, &fs2, st));
            if ctx.tier == crate::explore::Tier::Thorough || (i + j) % 2 == 0 {
                for k in 0..atoms.len() {
                    let fs3 = [atoms[i], atoms[j], atoms[k]];
                    w.check(3, || d2(&fs3, ext), |st| eval_filters(ext, &fs3, st));
                }
            }
        }
    });
    // 4. white-lists: all subsets of a 12-symbol set in a shuffled order, all singles, all pairs
    let base: Vec<usize> = vec![
        gen::idx(10, 10), gen::idx(12, 12), gen::idx(8, 18), gen::idx(14, 14), gen::idx(8, 32), gen::idx(16, 16),
        gen::idx(12, 26), gen::idx(18, 18), gen::idx(8, 48), gen::idx(20, 20), gen::idx(12, 36), gen::idx(8, 64),
    ];
    let wdesc = |order: &[usize], enc: bool| json!({"kind": "whitelist", "order": order.iter().map(|i| bridge::size_name(*i)).collect::<Vec<_>>(), "encode": enc});
    ctx.par(4096, |c, w| {
        if c == 0 {
            return;
        }
        w.label(|| format!("white-list subset {:012b}", c));
        let mut order: Vec<usize> = (0..12).filter(|b| c >> b & 1 == 1).map(|b| base[b]).collect();
        // a deterministic shuffle depending on the subset
        let n = order.len();
        let mut s = c.wrapping_mul(0x9E3779B97F4A7C15);
        for i in (1..n).rev() {
            s = s.wrapping_mul(6364136223846793005).wrapping_add(1442695040888963407);
            order.swap(i, (s >> 33) as usize % (i + 1));
        }
        w.sample(|| wdesc(&order, true));
        w.check(n as u64, || wdesc(&order, true), |st| eval_whitelist(&order, true, st));
        let mut rev = order.clone();
        rev.reverse();
        w.check(n as u64, || wdesc(&rev, false), |st| eval_whitelist(&rev, false, st));
    });
    ctx.par(48, |c, w| {
        let a = c as usize;
        w.label(|| format!("white-list singles and pairs with {}", SYMBOLS[a].name()));
        w.check(1, || wdesc(&[a], true), |st| eval_whitelist(&[a], SYMBOLS[a].data <= 368, st));
        for b in 0..48 {
            if b != a {
                let enc = SYMBOLS[a].data.max(SYMBOLS[b].data) <= 64;
                w.check(2, || wdesc(&[a, b], enc), |st| eval_whitelist(&[a, b], enc, st));
                if a < b {
                    w.check(2, || json!({"kind": "pair", "a": bridge::size_name(a), "b": bridge::size_name(b)}), |st| eval_pair_boundaries(a, b, st));
                }
            }
        }
    });
    ctx.seq(|w| {
        let all: Vec<usize> = (0..48).rev().collect();
        w.check(48, || wdesc(&all, false), |st| eval_whitelist(&all, false, st));
        let def: Vec<usize> = ListMask::default_list().indices();
        w.check(30, || wdesc(&def, false), |st| eval_whitelist(&def, false, st));
    });
    // 5. builder: the order of the option setters does not matter, the given list is the list used
    {
        let lists: Vec<Vec<usize>> = vec![
            vec![gen::idx(44, 44)],
            vec![gen::idx(18, 18)],
            vec![gen::idx(10, 10), gen::idx(16, 16)],
            vec![gen::idx(8, 48), gen::idx(12, 64), gen::idx(26, 40)],
            vec![gen::idx(12, 26), gen::idx(8, 32), gen::idx(24, 24)],
            ListMask::default_list().indices(),
        ];
        let datas: Vec<Vec<u8>> = vec![
            b"".to_vec(),
            b"0104012345678901".to_vec(),
            b"Hello, World! 12345678901234567890".to_vec(),
            { let mut m = gen::MACRO05.to_vec(); m.extend(b"ABC123"); m.extend_from_slice(gen::MACRO_TRAIL); m },
            vec![0xE1; 20],
        ];
        let bdesc = |o: &[usize], mb: u8, ma: bool, f: bool, d: &[u8]| json!({"kind": "builder", "order": o.iter().map(|i| bridge::size_name(*i)).collect::<Vec<_>>(), "modes": mb, "macros": ma, "fnc1": f, "data": crate::explore::hex(d)});
        ctx.par(lists.len() as u64, |c, w| {
            let o = &lists[c as usize];
            w.label(|| format!("builder setter orders, list {}", c));
            for mb in [bridge::ALL_MODES, 1u8, 0x3e, 0x21] {
                for ma in [true, false] {
                    for f in [false, true] {
                        for d in &datas {
                            w.check(o.len() as u64, || bdesc(o, mb, ma, f, d), |st| eval_builder_order(o, mb, ma, f, d, st));
                        }
                    }
                }
            }
        });
    }
    let cov = json!({
        "evaluations": ctx.evaluations(),
        "distinct_nontrivial": ctx.counter("nontrivial"),
        "rule": "48 sizes x (data/total codewords, pixel dimensions, every finder/alignment module of the region layout, size detection, interleaved blocks via the support of the EC response to every unit data vector) against \
ISO/IEC 16022 Table 7 / ISO/IEC 21471 (R2, R4); default = the 30 ISO 16022 sizes, extended = 48; enforce_width_in / enforce_height_in for every range a..b, a..=b, a.., (a,inf), ..a, ..=a, .. with a, b in 0..=150 on both lists; \
compositions of 2 (all) and 3 (quick: half of the pairs extended by every third filter; thorough: all) filters over a reduced bound set; all 4095 subsets of a 12-symbol set as shuffled white-lists (+ reversed), all singles and ordered pairs: membership, \
iteration by non-decreasing capacity, and for every k in 0..=maxcap+1 the symbol picked for k ASCII codewords (k bytes 0x7F in ASCII mode, and 2k digits with all modes) is the first of the iteration order that is large enough (likewise for macro 05 messages and binary data); every unordered pair of sizes at the capacity boundaries of both members (k - 1, k, k + 1 codewords as digits and as ASCII bytes); builder: for six lists x four mode sets x macros x FNC1 x five messages all 24 orders of the four option setters give the same symbol and codewords, the symbol is in the list, encode_gs1 agrees. All cases distinct; non-trivial = filter result differs from the unfiltered lists / any white-list / any size.",
        "exhaustive": true,
        "picks_checked": ctx.counter("picks_checked"),
    });
    ctx.finish("exploration", cov, vec!["R2 is typed in from the standards; its module-count identities are checked at start-up".into()])
}

pub fn replay(case: &Value) -> Result<(), String> {
    let mut st = Stats::default();
    let idx_of = |v: &Value| -> Result<usize, String> {
        let name = v.as_str().ok_or("size name")?;
        (0..48).find(|i| bridge::size_name(*i) == name).ok_or_else(|| "unknown size".to_string())
    };
    match case["kind"].as_str().unwrap_or("") {
        "size" => eval_size(idx_of(&case["size"])?, &mut st),
        "filters" => {
            let fs: Vec<Filter> = case["filters"].as_array().ok_or("filters")?.iter().map(filter_from).collect();
            eval_filters(case["extended"].as_bool().unwrap_or(false), &fs, &mut st)
        }
        "pair" => eval_pair_boundaries(idx_of(&case["a"])?, idx_of(&case["b"])?, &mut st),
        "builder" => {
            let order: Result<Vec<usize>, String> = case["order"].as_array().ok_or("order")?.iter().map(idx_of).collect();
            eval_builder_order(&order?, case["modes"].as_u64().ok_or("modes")? as u8, case["macros"].as_bool().unwrap_or(true), case["fnc1"].as_bool().unwrap_or(false), &crate::explore::unhex(case["data"].as_str().ok_or("data")?), &mut st)
        }
        "whitelist" => {
            let order: Result<Vec<usize>, String> = case["order"].as_array().ok_or("order")?.iter().map(idx_of).collect();
            eval_whitelist(&order?, case["encode"].as_bool().unwrap_or(false), &mut st)
        }
        _ => Err("replay of this case kind is not supported; re-run the check".into()),
    }
}
