//! C09 — error correction never reports success on a word that is not a codeword.

use datamatrix::errorcode::{decode_error, encode_error};
use serde_json::{json, Value};

use super::rs::{self, Base, Job};
use crate::bridge::{self, SIZES};
use crate::explore::{guarded, hex, unhex, Ctx, Stats, Tier};
use crate::refmodel::gf;
use crate::refmodel::symbols::SYMBOLS;

pub fn eval(si: usize, orig: Option<&[u8]>, recv: &[u8], st: &mut Stats) -> Result<(), String> {
    let sy = &SYMBOLS[si];
    let mut cw = recv.to_vec();
    let r = match guarded(|| decode_error(&mut cw, SIZES[si])) {
        Ok(r) => r,
        Err(_) => {
            st.count("panicked_see_C05");
            return Ok(());
        }
    };
    match r {
        Err(_) => {
            st.count("rejected");
            Ok(())
        }
        Ok(()) => {
            if !gf::is_codeword(sy, &cw) {
                return Err("decode_error returned Ok but the word left behind has non-zero syndromes".to_string());
            }
            let ec = encode_error(&cw[..sy.data], SIZES[si]);
            if ec != cw[sy.data..] {
                return Err("decode_error returned Ok but re-encoding the data part does not reproduce the error-correction part".to_string());
            }
            match orig {
                Some(o) if o == &cw[..] => st.count("ok_restored"),
                _ => st.count("ok_other_codeword"),
            }
            Ok(())
        }
    }
}

fn desc(si: usize, recv: &[u8]) -> Value {
    json!({"size": bridge::size_name(si), "received": hex(recv)})
}

pub fn jobs(tier: Tier) -> Vec<Job> {
    let mut jobs: Vec<Job> = Vec::new();
    rs::rs1(Tier::Quick, &mut jobs);
    // weights around and beyond the radius
    rs::rs_weighted(
        tier,
        &|t| {
            let mut w = vec![t, t + 1, t + 2, 2 * t + 1];
            w.sort_unstable();
            w.dedup();
            w
        },
        &|t| vec![t + 1, t + 2],
        &mut jobs,
    );
    for si in 0..48 {
        for base in [Base::Zero, Base::Lcg(4)] {
            for block in 0..SYMBOLS[si].blocks {
                if tier == Tier::Quick && SYMBOLS[si].blocks > 2 && block != 0 && block != SYMBOLS[si].blocks - 1 {
                    continue;
                }
                jobs.push(Job::LeadingZero { si, base, block });
                if SYMBOLS[si].ec_per_block() % 2 == 1 {
                    jobs.push(Job::Supercode { si, base, block });
                }
            }
        }
    }
    // the decoder's syndrome space over small alphabets (sizes with at most 12 error codewords)
    let pow_alpha = |n: usize| -> Vec<u8> { std::iter::once(0u8).chain((0..n).map(|i| gf::pow(2, i))).collect() };
    for si in rs::small_sizes() {
        let k = SYMBOLS[si].ec_per_block();
        let alpha: Vec<u8> = match (k, tier) {
            (5, Tier::Quick) => pow_alpha(15),
            (5, Tier::Thorough) => pow_alpha(31),
            (7, Tier::Quick) => pow_alpha(5),
            (7, Tier::Thorough) => pow_alpha(8),
            (10, Tier::Quick) => vec![0, 1, 2, 4],
            (10, Tier::Thorough) => vec![0, 1, 2, 4, 8],
            (_, Tier::Quick) => vec![0, 1, 2],
            (_, Tier::Thorough) => vec![0, 1, 2, 4],
        };
        for first in alpha.clone() {
            jobs.push(Job::SyndromeAlphabet { si, base: Base::Lcg(6), block: 0, alpha: alpha.clone(), first });
        }
    }
    for si in 0..48 {
        for block in 0..SYMBOLS[si].blocks {
            if tier == Tier::Quick && block != 0 && block != SYMBOLS[si].blocks - 1 {
                continue;
            }
            jobs.push(Job::ZeroRange { si, base: Base::Lcg(7), block, full: tier == Tier::Thorough || SYMBOLS[si].ec_per_block() <= 28 });
            jobs.push(Job::Phantom { si, base: Base::Lcg(9), block });
            jobs.push(Job::ErrorsPlusZeroPrefix { si, base: Base::Lcg(10), block });
        }
    }
    rs::rs_syndrome_prefix(tier, &mut jobs);
    rs::rs_hankel_profile(tier, &mut jobs);
    // 10x10 ball
    for pos in 0..8 {
        for val in 1..=255u8 {
            if tier == Tier::Thorough {
                jobs.push(Job::Ball10 { base: Base::Zero, pos, val, dist: 3, values_full: true });
            } else {
                jobs.push(Job::Ball10 { base: Base::Zero, pos, val, dist: 2, values_full: true });
                if rs::V8.contains(&val) {
                    jobs.push(Job::Ball10 { base: Base::Lcg(5), pos, val, dist: 3, values_full: false });
                }
            }
        }
    }
    jobs
}

pub fn job_size(job: &Job) -> usize {
    match job {
        Job::Single { si, .. } | Job::Subsets { si, .. } | Job::Burst { si, .. } | Job::Spread { si, .. } | Job::AllBlocks { si, .. } | Job::LeadingZero { si, .. } | Job::Supercode { si, .. } | Job::SyndromeAlphabet { si, .. } | Job::ZeroRange { si, .. } | Job::SyndromePrefix { si, .. } | Job::Phantom { si, .. } | Job::ErrorsPlusZeroPrefix { si, .. } | Job::HankelSingular { si, .. } | Job::HankelProfile { si, .. } => *si,
        Job::Ball10 { .. } => 0,
    }
}

pub fn run(ctx: &Ctx) -> i32 {
    let jobs = jobs(ctx.tier);
    rs::run_jobs(ctx, &jobs, |job, orig, recv, info, w| {
        let si = job_size(job);
        if info.max_block_weight > SYMBOLS[si].t() {
            w.stats.count("beyond_radius");
        }
        w.stats.distinct("sizes", si as u64);
        w.sample(|| json!({"size": bridge::size_name(si), "job": job.label()}));
        w.check((si * 1000) as u64, || desc(si, recv), |st| eval(si, Some(orig), recv, st));
    });
    let odd: Vec<String> = SYMBOLS.iter().filter(|s| s.ec_per_block() % 2 == 1).map(|s| s.name()).collect();
    let cov = json!({
        "evaluations": ctx.evaluations(),
        "distinct_nontrivial": ctx.counter("beyond_radius"),
        "rule": format!("received words around and beyond the correction radius for all 48 sizes: single errors; bursts/spread/all-blocks patterns of weight t, t+1, t+2, 2t+1; all position subsets of size t+1, t+2 \
for the sizes with <= 24 codewords; the leading-zero family c + m*x^s*prod_(i<=j)(x-2^i), j = 1..k-1 (first j syndromes zero); for the sizes with an odd number of error codewords ({}) the supercode family \
c + e + v*x^s*prod_(i<=2t)(x-2^i) with e of weight 0..2 (exactly the words a decoder ignoring the last syndrome would wave through); the zero-range family c + v*x^s*prod_(a<=i<=b)(x-2^i) (syndromes a..b vanish); one or two real errors plus a pattern whose first t+v syndromes vanish; phantom errors (the syndromes of errors at locations n..254 outside the shortened block, alone, in pairs and with one real error); \
syndrome vectors enumerated by Hankel singularity profile (depth-first over S_1..S_(2d-1), d = 5..7, three values per syndrome of which one makes the leading minor H_j singular whenever that is possible, two tails: every sequence of regular and singular steps of the locator computation up to depth d); for the six sizes with <= 12 error codewords every syndrome vector over a small alphabet (0 and powers of 2; 16^5 for 10x10), realised as an error on the EC positions - the decoder's own state space; 10x10: {}. Distinct by construction; non-trivial = more errors than floor(k/2) in some block. \
Oracle: whenever decode_error returns Ok, all syndromes of every block of the returned word vanish in R1 and encode_error(data part) equals its EC part.", odd.join(", "),
            if ctx.tier == Tier::Thorough { "all words within Hamming distance 3 of the zero codeword" } else { "all words within distance 2 of the zero codeword, distance 3 over an 8-value alphabet around an LCG codeword" }),
        "exhaustive": true,
        "ok_restored": ctx.counter("ok_restored"),
        "ok_other_codeword": ctx.counter("ok_other_codeword"),
        "rejected": ctx.counter("rejected"),
        "sizes_covered": ctx.distinct("sizes"),
    });
    ctx.finish("fault_enumeration", cov, vec![
        "words far from every codeword are reached only through the algebraic families and the 10x10 ball (DESIGN.md §9)".into(),
    ])
}

pub fn replay(case: &Value) -> Result<(), String> {
    let name = case["size"].as_str().ok_or("size")?;
    let si = (0..48).find(|i| bridge::size_name(*i) == name).ok_or("unknown size")?;
    eval(si, None, &unhex(case["received"].as_str().ok_or("received")?), &mut Stats::default())
}
