//! Shared Reed-Solomon fault generators RS-1, RS-2, RS-3 (DESIGN.md §5) for C03, C05, C09.

use crate::explore::{Tier, Worker};
use crate::refmodel::gf;
use crate::refmodel::symbols::{Sym, SYMBOLS};

pub const V8: [u8; 8] = [1, 2, 3, 0x53, 0x80, 0xAA, 0xFE, 0xFF];
pub const V2: [u8; 2] = [1, 0xFF];
pub const V3: [u8; 3] = [1, 0x80, 0xFF];

#[derive(Clone, Copy, Debug, PartialEq, Eq)]
pub enum Base {
    Zero,
    Ones,
    Lcg(u8),
}

/// A valid codeword vector of the symbol built with the reference encoder R1.
pub fn base_codeword(si: usize, base: Base) -> Vec<u8> {
    let sy = &SYMBOLS[si];
    let data: Vec<u8> = match base {
        Base::Zero => vec![0; sy.data],
        Base::Ones => vec![0xFF; sy.data],
        Base::Lcg(seed) => {
            let mut s = (seed as u64 + 1).wrapping_mul(0x9E3779B97F4A7C15) ^ si as u64;
            (0..sy.data)
                .map(|_| {
                    s = s.wrapping_mul(6364136223846793005).wrapping_add(1442695040888963407);
                    (s >> 33) as u8
                })
                .collect()
        }
    };
    let mut cw = data.clone();
    cw.extend(gf::ec_of_symbol(sy, &data));
    cw
}

/// Global indices of block b: data part then EC part.
pub fn blk_idx(sy: &Sym, b: usize) -> Vec<usize> {
    let (d, e) = gf::block_indices(sy, b);
    d.into_iter().chain(e).collect()
}

/// Sizes with at most 24 codewords (all single block).
pub fn small_sizes() -> Vec<usize> {
    (0..48).filter(|i| SYMBOLS[*i].total() <= 24).collect()
}

#[derive(Clone, Debug)]
pub enum Job {
    /// one position, a set of error values
    Single { si: usize, base: Base, pos: usize, all_values: bool },
    /// all position subsets of size k with smallest element `first` x values^k (single-block sizes)
    Subsets { si: usize, base: Base, k: usize, first: usize, values: &'static [u8] },
    /// bursts of `weight` in-block positions at every offset of one block
    Burst { si: usize, base: Base, block: usize, weight: usize },
    /// `weight` positions spread evenly over one block, a few phases
    Spread { si: usize, base: Base, block: usize, weight: usize },
    /// every block damaged at once with `weight` errors each
    AllBlocks { si: usize, base: Base, weight: usize },
    /// c + m * x^s * prod_{i<=j}(x - 2^i): the first j syndromes of the block vanish
    LeadingZero { si: usize, base: Base, block: usize },
    /// odd k = 2t+1: c + e + v * x^s * prod_{i<=2t}(x - 2^i), e of weight <= 2
    Supercode { si: usize, base: Base, block: usize },
    /// every syndrome vector over `alpha`^k with first syndrome `first`, realised as an error
    /// on the k error-correction positions of the block (the decoder's behaviour is a function
    /// of the syndromes; this enumerates its state space over a small alphabet)
    SyndromeAlphabet { si: usize, base: Base, block: usize, alpha: Vec<u8>, first: u8 },
    /// errors at the given in-block positions whose values realise every syndrome prefix
    /// (S_1..S_w) over `alpha`^w: drives the decoder through its singular cases (leading zero
    /// syndromes, geometric syndrome sequences) while staying within the correction capacity
    SyndromePrefix { si: usize, base: Base, block: usize, positions: Vec<usize>, alpha: Vec<u8> },
    /// v real errors (v = 1, 2 < t) plus a pattern whose first t + v syndromes vanish: a decoder
    /// that stops with a short locator must still look at the remaining syndromes
    ErrorsPlusZeroPrefix { si: usize, base: Base, block: usize },
    /// "phantom" errors: the syndromes of errors at locations n..=254 outside the shortened block
    /// (c + v * (x^j mod g) in the EC part), alone, in pairs, and together with one real error
    Phantom { si: usize, base: Base, block: usize },
    /// c + v * x^s * prod_{i in a..=b}(x - 2^i): syndromes a..=b vanish, the others do not (in general)
    ZeroRange { si: usize, base: Base, block: usize, full: bool },
    /// w errors at the given in-block positions whose values make two (or more) separate leading
    /// Hankel minors H_j of the syndrome sequence vanish (j1 forced by solving for the last value,
    /// others found by sweeping two values over all of GF(256)*): drives the decoder through
    /// several singular steps within one block while staying within the correction capacity
    HankelSingular { si: usize, base: Base, block: usize, positions: Vec<usize>, j1: usize },
    /// syndrome vectors enumerated by their Hankel singularity profile: depth-first over S_1..S_(2*depth-1),
    /// three choices per syndrome; for the corner entry S_(2j-1) of the leading minor H_j one choice is
    /// the value that makes H_j singular (det H_j is affine in it), so every pattern of singular and
    /// regular steps of a Levinson/Berlekamp-type decoder up to `depth` occurs; the remaining syndromes
    /// follow two fixed tails; realised as an error on the EC positions (any weight)
    HankelProfile { si: usize, base: Base, block: usize, depth: usize, first: [u8; 2] },
    /// 10x10: all words within distance `dist` of the codeword whose first error is (pos, val)
    Ball10 { base: Base, pos: usize, val: u8, dist: usize, values_full: bool },
}

impl Job {
    pub fn label(&self) -> String {
        format!("{:?}", self)
    }
}

/// What a generated case is allowed to assume.
#[derive(Clone, Copy, Debug)]
pub struct CaseInfo {
    /// maximum number of corrupted codewords in any block; usize::MAX for algebraic families
    pub max_block_weight: usize,
}

/// Invert a regular square matrix over GF(256) by Gauss-Jordan elimination (destroys `m`).
fn invert(m: &mut Vec<Vec<u8>>) -> Vec<Vec<u8>> {
    let k = m.len();
    let mut inv: Vec<Vec<u8>> = (0..k).map(|i| (0..k).map(|j| (i == j) as u8).collect()).collect();
    for c in 0..k {
        let piv = (c..k).find(|r| m[*r][c] != 0).expect("Vandermonde matrix is regular");
        m.swap(c, piv);
        inv.swap(c, piv);
        let d = gf::inv(m[c][c]);
        for x in 0..k {
            m[c][x] = gf::mul(m[c][x], d);
            inv[c][x] = gf::mul(inv[c][x], d);
        }
        for r in 0..k {
            if r != c && m[r][c] != 0 {
                let f2 = m[r][c];
                for x in 0..k {
                    let (a, b) = (gf::mul(f2, m[c][x]), gf::mul(f2, inv[c][x]));
                    m[r][x] ^= a;
                    inv[r][x] ^= b;
                }
            }
        }
    }
    inv
}

fn partial_generator(j: usize) -> Vec<u8> {
    gf::generator(j)
}

/// Enumerate all received words of a job: f(original, received, info).
pub fn expand(job: &Job, f: &mut dyn FnMut(&[u8], &[u8], CaseInfo)) {
    match job {
        Job::Single { si, base, pos, all_values } => {
            let orig = base_codeword(*si, *base);
            let mut r = orig.clone();
            let vals: Vec<u8> = if *all_values { (1..=255).collect() } else { V3.to_vec() };
            for v in vals {
                r[*pos] = orig[*pos] ^ v;
                f(&orig, &r, CaseInfo { max_block_weight: 1 });
            }
        }
        Job::Subsets { si, base, k, first, values } => {
            let sy = &SYMBOLS[*si];
            assert_eq!(sy.blocks, 1);
            let n = sy.total();
            let orig = base_codeword(*si, *base);
            let mut pos = vec![0usize; *k];
            pos[0] = *first;
            // enumerate the remaining k-1 positions > first
            fn rec(level: usize, pos: &mut Vec<usize>, n: usize, k: usize, g: &mut dyn FnMut(&[usize])) {
                if level == k {
                    g(pos);
                    return;
                }
                let start = pos[level - 1] + 1;
                for p in start..n {
                    pos[level] = p;
                    rec(level + 1, pos, n, k, g);
                }
            }
            let nv = values.len();
            let mut r = orig.clone();
            rec(1, &mut pos, n, *k, &mut |ps: &[usize]| {
                let combos = nv.pow(*k as u32);
                for c in 0..combos {
                    let mut cc = c;
                    for p in ps {
                        r[*p] = orig[*p] ^ values[cc % nv];
                        cc /= nv;
                    }
                    f(&orig, &r, CaseInfo { max_block_weight: *k });
                }
                for p in ps {
                    r[*p] = orig[*p];
                }
            });
        }
        Job::Burst { si, base, block, weight } => {
            let sy = &SYMBOLS[*si];
            let idx = blk_idx(sy, *block);
            let orig = base_codeword(*si, *base);
            if *weight == 0 || *weight > idx.len() {
                return;
            }
            for o in 0..=idx.len() - weight {
                let mut r = orig.clone();
                for i in 0..*weight {
                    r[idx[o + i]] ^= V8[(o + i) % 8];
                }
                f(&orig, &r, CaseInfo { max_block_weight: *weight });
            }
        }
        Job::Spread { si, base, block, weight } => {
            let sy = &SYMBOLS[*si];
            let idx = blk_idx(sy, *block);
            let orig = base_codeword(*si, *base);
            let n = idx.len();
            if *weight == 0 || *weight > n {
                return;
            }
            for phase in 0..(n / weight).min(4).max(1) {
                let mut r = orig.clone();
                for i in 0..*weight {
                    r[idx[(i * n / weight + phase) % n]] ^= V8[(i + phase) % 8];
                }
                f(&orig, &r, CaseInfo { max_block_weight: *weight });
            }
        }
        Job::AllBlocks { si, base, weight } => {
            let sy = &SYMBOLS[*si];
            let orig = base_codeword(*si, *base);
            let nmin = blk_idx(sy, sy.blocks - 1).len();
            if *weight == 0 || *weight > nmin {
                return;
            }
            for o in [0, (nmin - weight) / 3, (nmin - weight) / 2, nmin - weight] {
                let mut r = orig.clone();
                for b in 0..sy.blocks {
                    let idx = blk_idx(sy, b);
                    for i in 0..*weight {
                        r[idx[o + i]] ^= V8[(o + i + b) % 8];
                    }
                }
                f(&orig, &r, CaseInfo { max_block_weight: *weight });
            }
        }
        Job::LeadingZero { si, base, block } => {
            let sy = &SYMBOLS[*si];
            let idx = blk_idx(sy, *block);
            let n = idx.len();
            let k = sy.ec_per_block();
            let orig = base_codeword(*si, *base);
            for j in 1..k {
                let p = partial_generator(j); // j + 1 coefficients, highest first
                let smax = n - 1 - j;
                let mut shifts = vec![0, 1.min(smax), smax / 2, smax];
                shifts.dedup();
                for s in shifts {
                    for m in V8 {
                        let mut r = orig.clone();
                        // x^s * p occupies block positions n-1-(s+j) ..= n-1-s
                        for (q, c) in p.iter().enumerate() {
                            r[idx[n - 1 - (s + j) + q]] ^= gf::mul(*c, m);
                        }
                        f(&orig, &r, CaseInfo { max_block_weight: usize::MAX });
                    }
                }
            }
        }
        Job::Supercode { si, base, block } => {
            let sy = &SYMBOLS[*si];
            let k = sy.ec_per_block();
            if k % 2 == 0 {
                return;
            }
            let t = k / 2;
            let idx = blk_idx(sy, *block);
            let n = idx.len();
            let orig = base_codeword(*si, *base);
            let p = partial_generator(2 * t);
            let smax = n - 1 - 2 * t;
            for s in 0..=smax {
                for v in V8 {
                    let mut d = orig.clone();
                    for (q, c) in p.iter().enumerate() {
                        d[idx[n - 1 - (s + 2 * t) + q]] ^= gf::mul(*c, v);
                    }
                    f(&orig, &d, CaseInfo { max_block_weight: usize::MAX });
                    // plus e of weight 1 and 2 (within the radius t when t >= 2)
                    for p1 in 0..n {
                        for e1 in V2 {
                            let mut r = d.clone();
                            r[idx[p1]] ^= e1;
                            f(&orig, &r, CaseInfo { max_block_weight: usize::MAX });
                            if t >= 2 {
                                for p2 in (p1 + 1..n).step_by(1 + n / 8) {
                                    let mut r2 = r.clone();
                                    r2[idx[p2]] ^= 0x53;
                                    f(&orig, &r2, CaseInfo { max_block_weight: usize::MAX });
                                }
                            }
                        }
                    }
                }
            }
        }
        Job::SyndromeAlphabet { si, base, block, alpha, first } => {
            let sy = &SYMBOLS[*si];
            let k = sy.ec_per_block();
            let idx = blk_idx(sy, *block);
            let n = idx.len();
            let orig = base_codeword(*si, *base);
            // M[i][j] = (2^(i+1))^(k-1-j): syndrome i+1 of a unit error at EC position j of the block
            let mut m: Vec<Vec<u8>> = (0..k).map(|i| (0..k).map(|j| gf::pow(gf::pow(2, i + 1), k - 1 - j)).collect()).collect();
            let inv = invert(&mut m);
            let na = alpha.len();
            let total = na.pow(k as u32 - 1);
            let mut syn = vec![0u8; k];
            syn[0] = *first;
            let mut r = orig.clone();
            for v in 0..total {
                let mut vv = v;
                for q in 1..k {
                    syn[q] = alpha[vv % na];
                    vv /= na;
                }
                if syn.iter().all(|x| *x == 0) {
                    continue;
                }
                for j in 0..k {
                    let mut e = 0u8;
                    for i in 0..k {
                        e ^= gf::mul(inv[j][i], syn[i]);
                    }
                    let g = idx[n - k + j];
                    r[g] = orig[g] ^ e;
                }
                f(&orig, &r, CaseInfo { max_block_weight: usize::MAX });
            }
        }
        Job::SyndromePrefix { si, base, block, positions, alpha } => {
            let sy = &SYMBOLS[*si];
            let idx = blk_idx(sy, *block);
            let n = idx.len();
            let w = positions.len();
            let orig = base_codeword(*si, *base);
            // M[i][j] = (2^(i+1))^(power of position j); block position q carries x^(n-1-q)
            let mut m: Vec<Vec<u8>> = (0..w).map(|i| positions.iter().map(|q| gf::pow(gf::pow(2, i + 1), n - 1 - q)).collect()).collect();
            let inv = invert(&mut m);
            let na = alpha.len();
            let total = na.pow(w as u32);
            let mut syn = vec![0u8; w];
            let mut r = orig.clone();
            for v in 0..total {
                let mut vv = v;
                for q in 0..w {
                    syn[q] = alpha[vv % na];
                    vv /= na;
                }
                if syn.iter().all(|x| *x == 0) {
                    continue;
                }
                for j in 0..w {
                    let mut e = 0u8;
                    for i in 0..w {
                        e ^= gf::mul(inv[j][i], syn[i]);
                    }
                    let g = idx[positions[j]];
                    r[g] = orig[g] ^ e;
                }
                f(&orig, &r, CaseInfo { max_block_weight: w });
            }
        }
        Job::HankelSingular { si, base, block, positions, j1 } => {
            let sy = &SYMBOLS[*si];
            let idx = blk_idx(sy, *block);
            let n = idx.len();
            let w = positions.len();
            let orig = base_codeword(*si, *base);
            // locator of block position q: X = alpha^(n-1-q); S_i = sum Y_q X_q^i, syn[i-1] = S_i
            let xs: Vec<u8> = positions.iter().map(|q| gf::pow(2, n - 1 - q)).collect();
            let ns = 2 * (w - 1); // syndromes needed for H_1..H_(w-1)
            let xpow: Vec<Vec<u8>> = xs.iter().map(|x| (1..=ns).map(|i| gf::pow(*x, i)).collect()).collect();
            let hankel_det = |syn: &[u8], j: usize| -> u8 {
                let mut m: Vec<Vec<u8>> = (0..j).map(|a| (0..j).map(|b| syn[a + b]).collect()).collect();
                let mut det = 1u8;
                for c in 0..j {
                    let piv = match (c..j).find(|r| m[*r][c] != 0) {
                        Some(p) => p,
                        None => return 0,
                    };
                    m.swap(c, piv);
                    det = gf::mul(det, m[c][c]);
                    let d = gf::inv(m[c][c]);
                    for r in c + 1..j {
                        if m[r][c] != 0 {
                            let f2 = gf::mul(m[r][c], d);
                            for x in c..j {
                                let a = gf::mul(f2, m[c][x]);
                                m[r][x] ^= a;
                            }
                        }
                    }
                }
                det
            };
            let mut ys: Vec<u8> = (0..w).map(|i| (i as u8) * 29 + 1).collect();
            let mut r = orig.clone();
            for ya in 1..=255u8 {
                for yb in 1..=255u8 {
                    ys[w - 3] = ya;
                    ys[w - 2] = yb;
                    // syndromes without the last error
                    let mut s0 = vec![0u8; ns];
                    for q in 0..w - 1 {
                        for i in 0..ns {
                            s0[i] ^= gf::mul(ys[q], xpow[q][i]);
                        }
                    }
                    // det H_j1 is affine in the last value: A at 0, A + B at 1
                    let a = hankel_det(&s0, *j1);
                    let s1: Vec<u8> = (0..ns).map(|i| s0[i] ^ xpow[w - 1][i]).collect();
                    let b = a ^ hankel_det(&s1, *j1);
                    if a == 0 || b == 0 {
                        continue;
                    }
                    let yw = gf::mul(a, gf::inv(b));
                    let syn: Vec<u8> = (0..ns).map(|i| s0[i] ^ gf::mul(yw, xpow[w - 1][i])).collect();
                    debug_assert_eq!(hankel_det(&syn, *j1), 0);
                    // keep the pattern if another, non-adjacent leading minor vanishes too
                    let singular: Vec<usize> = (1..w).filter(|j| hankel_det(&syn, *j) == 0).collect();
                    if !singular.iter().any(|j| *j + 1 < *j1 || *j > *j1 + 1) {
                        continue;
                    }
                    ys[w - 1] = yw;
                    for q in 0..w {
                        let g = idx[positions[q]];
                        r[g] = orig[g] ^ ys[q];
                    }
                    f(&orig, &r, CaseInfo { max_block_weight: w });
                }
            }
        }
        Job::HankelProfile { si, base, block, depth, first } => {
            let sy = &SYMBOLS[*si];
            let k = sy.ec_per_block();
            let idx = blk_idx(sy, *block);
            let n = idx.len();
            let orig = base_codeword(*si, *base);
            let mut m: Vec<Vec<u8>> = (0..k).map(|i| (0..k).map(|j| gf::pow(gf::pow(2, i + 1), k - 1 - j)).collect()).collect();
            let inv = invert(&mut m);
            let np = (2 * *depth - 1).min(k);
            fn det(syn: &[u8], j: usize) -> u8 {
                let mut m: Vec<Vec<u8>> = (0..j).map(|a| (0..j).map(|b| syn[a + b]).collect()).collect();
                let mut d = 1u8;
                for c in 0..j {
                    let piv = match (c..j).find(|r| m[*r][c] != 0) {
                        Some(p) => p,
                        None => return 0,
                    };
                    m.swap(c, piv);
                    d = gf::mul(d, m[c][c]);
                    let iv = gf::inv(m[c][c]);
                    for r in c + 1..j {
                        if m[r][c] != 0 {
                            let f2 = gf::mul(m[r][c], iv);
                            for x in c..j {
                                let a = gf::mul(f2, m[c][x]);
                                m[r][x] ^= a;
                            }
                        }
                    }
                }
                d
            }
            let mut syn = vec![0u8; k.max(np)];
            syn[0] = first[0];
            if np > 1 {
                syn[1] = first[1];
            }
            let mut r = orig.clone();
            // iterative DFS over positions 2..np
            let mut choice = vec![0usize; np];
            let mut p = 2.min(np);
            let cands = |syn: &mut Vec<u8>, p: usize| -> [u8; 3] {
                if p % 2 == 0 {
                    let j = p / 2 + 1;
                    syn[p] = 0;
                    let a = det(syn, j);
                    syn[p] = 1;
                    let b = a ^ det(syn, j);
                    if b != 0 {
                        let root = gf::mul(a, gf::inv(b));
                        [root, root ^ 1, root ^ 0x53]
                    } else {
                        [0, 1, 0x53]
                    }
                } else {
                    [0, 1, 0x1D]
                }
            };
            let emit = |syn: &[u8], r: &mut Vec<u8>, f: &mut dyn FnMut(&[u8], &[u8], CaseInfo)| {
                if syn[..k].iter().all(|x| *x == 0) {
                    return;
                }
                for j in 0..k {
                    let mut e = 0u8;
                    for i in 0..k {
                        e ^= gf::mul(inv[j][i], syn[i]);
                    }
                    let g = idx[n - k + j];
                    r[g] = orig[g] ^ e;
                }
                f(&orig, r, CaseInfo { max_block_weight: usize::MAX });
            };
            if np <= 2 {
                emit(&syn, &mut r, f);
            } else {
                let mut cur: Vec<[u8; 3]> = vec![[0; 3]; np];
                cur[p] = cands(&mut syn, p);
                loop {
                    if choice[p] == 3 {
                        choice[p] = 0;
                        if p == 2 {
                            break;
                        }
                        p -= 1;
                        choice[p] += 1;
                        continue;
                    }
                    syn[p] = cur[p][choice[p]];
                    if p + 1 == np {
                        // two tails for the remaining syndromes
                        for tail in 0..2 {
                            for q in np..k {
                                syn[q] = if tail == 0 { 0 } else { (q as u8).wrapping_mul(0x3B) | 1 };
                            }
                            emit(&syn, &mut r, f);
                        }
                        choice[p] += 1;
                    } else {
                        p += 1;
                        cur[p] = cands(&mut syn, p);
                        choice[p] = 0;
                    }
                }
            }
        }
        Job::ErrorsPlusZeroPrefix { si, base, block } => {
            let sy = &SYMBOLS[*si];
            let k = sy.ec_per_block();
            let t = k / 2;
            let idx = blk_idx(sy, *block);
            let n = idx.len();
            let orig = base_codeword(*si, *base);
            for v in 1..=2usize {
                if v >= t || t + v >= k {
                    continue;
                }
                let p = partial_generator(t + v); // roots 2^1..2^(t+v)
                let deg = t + v;
                if deg > n - 1 {
                    continue;
                }
                let smax = n - 1 - deg;
                let mut shifts = vec![0, smax / 2, smax];
                shifts.dedup();
                for s in shifts {
                    for m in V2 {
                        let mut d = orig.clone();
                        for (q, c) in p.iter().enumerate() {
                            d[idx[n - 1 - (s + deg) + q]] ^= gf::mul(*c, m);
                        }
                        // v errors at a few position sets
                        let sets: Vec<Vec<usize>> = if v == 1 {
                            vec![vec![0], vec![n / 2], vec![n - 1], vec![n - k]]
                        } else {
                            vec![vec![0, 1], vec![0, n - 1], vec![n / 3, 2 * n / 3], vec![n - k - 1, n - k]]
                        };
                        for ps in sets {
                            for e in V2 {
                                let mut r = d.clone();
                                for (a, pos) in ps.iter().enumerate() {
                                    r[idx[*pos]] ^= if a == 0 { e } else { 0x53 };
                                }
                                f(&orig, &r, CaseInfo { max_block_weight: usize::MAX });
                            }
                        }
                    }
                }
            }
        }
        Job::Phantom { si, base, block } => {
            let sy = &SYMBOLS[*si];
            let k = sy.ec_per_block();
            let idx = blk_idx(sy, *block);
            let n = idx.len();
            let orig = base_codeword(*si, *base);
            let g = gf::generator(k); // k + 1 coefficients, highest first, monic
            // x^j mod g as k coefficients, highest first
            let x_pow_mod = |j: usize| -> Vec<u8> {
                let mut r = vec![0u8; k];
                r[k - 1] = 1; // the polynomial 1
                for _ in 0..j {
                    let top = r[0];
                    for q in 0..k - 1 {
                        r[q] = r[q + 1];
                    }
                    r[k - 1] = 0;
                    if top != 0 {
                        for q in 0..k {
                            r[q] ^= gf::mul(top, g[q + 1]);
                        }
                    }
                }
                r
            };
            let mut locs = vec![n, n + 1, n + 2, (n + 254) / 2, 253, 254];
            locs.retain(|j| *j >= n && *j <= 254);
            locs.sort_unstable();
            locs.dedup();
            let add = |r: &mut Vec<u8>, j: usize, v: u8| {
                let p = x_pow_mod(j);
                for q in 0..k {
                    r[idx[n - k + q]] ^= gf::mul(p[q], v);
                }
            };
            for (a, j) in locs.iter().enumerate() {
                for v in V8 {
                    let mut r = orig.clone();
                    add(&mut r, *j, v);
                    f(&orig, &r, CaseInfo { max_block_weight: usize::MAX });
                    // with one real error in the data part and one in the EC part
                    for p in [0usize, n / 2, n - 1] {
                        let mut r2 = r.clone();
                        r2[idx[p]] ^= 0x53;
                        f(&orig, &r2, CaseInfo { max_block_weight: usize::MAX });
                    }
                    // two phantoms
                    for j2 in locs.iter().skip(a + 1) {
                        let mut r3 = r.clone();
                        add(&mut r3, *j2, 0xAA);
                        f(&orig, &r3, CaseInfo { max_block_weight: usize::MAX });
                    }
                }
            }
        }
        Job::ZeroRange { si, base, block, full } => {
            let sy = &SYMBOLS[*si];
            let k = sy.ec_per_block();
            let idx = blk_idx(sy, *block);
            let n = idx.len();
            let orig = base_codeword(*si, *base);
            for a in 1..=k {
                for b in a..=k {
                    if !*full && !(a <= 3 || b == k || b - a <= 1) {
                        continue;
                    }
                    if a == 1 && b == k {
                        continue; // a codeword
                    }
                    // prod_{i=a..=b}(x - 2^i), highest degree first
                    let mut p = vec![1u8];
                    for i in a..=b {
                        let root = gf::pow(2, i);
                        let mut q = vec![0u8; p.len() + 1];
                        for (j, c) in p.iter().enumerate() {
                            q[j] ^= *c;
                            q[j + 1] ^= gf::mul(*c, root);
                        }
                        p = q;
                    }
                    let deg = p.len() - 1;
                    if deg > n - 1 {
                        continue;
                    }
                    let smax = n - 1 - deg;
                    let mut shifts = vec![0, smax / 2, smax];
                    shifts.dedup();
                    for s in shifts {
                        for v in V2 {
                            let mut r = orig.clone();
                            for (q, c) in p.iter().enumerate() {
                                r[idx[n - 1 - (s + deg) + q]] ^= gf::mul(*c, v);
                            }
                            f(&orig, &r, CaseInfo { max_block_weight: usize::MAX });
                        }
                    }
                }
            }
        }
        Job::Ball10 { base, pos, val, dist, values_full } => {
            let orig = base_codeword(0, *base);
            let n = orig.len();
            let vals: Vec<u8> = if *values_full { (1..=255).collect() } else { V8.to_vec() };
            let mut r = orig.clone();
            r[*pos] ^= *val;
            f(&orig, &r, CaseInfo { max_block_weight: 1 });
            if *dist >= 2 {
                for p2 in pos + 1..n {
                    for v2 in &vals {
                        r[p2] = orig[p2] ^ v2;
                        f(&orig, &r, CaseInfo { max_block_weight: 2 });
                        if *dist >= 3 {
                            for p3 in p2 + 1..n {
                                for v3 in &vals {
                                    r[p3] = orig[p3] ^ v3;
                                    f(&orig, &r, CaseInfo { max_block_weight: 3 });
                                }
                                r[p3] = orig[p3];
                            }
                        }
                    }
                    r[p2] = orig[p2];
                }
            }
        }
    }
}

/// RS-1: single errors.
pub fn rs1(tier: Tier, jobs: &mut Vec<Job>) {
    for si in 0..48 {
        let sy = &SYMBOLS[si];
        // block boundary positions: first/last data and first/last EC codeword of every block
        let mut boundary = std::collections::BTreeSet::new();
        for b in 0..sy.blocks {
            let (d, e) = gf::block_indices(sy, b);
            boundary.extend([d[0], *d.last().unwrap(), e[0], *e.last().unwrap()]);
        }
        for base in [Base::Zero, Base::Lcg(1)] {
            for pos in 0..sy.total() {
                let all_values = tier == Tier::Thorough || (base == Base::Lcg(1) && (boundary.contains(&pos) || sy.total() <= 300));
                if base == Base::Zero && tier == Tier::Quick && sy.total() > 300 && pos % 3 != 0 {
                    continue;
                }
                jobs.push(Job::Single { si, base, pos, all_values });
            }
        }
    }
}

/// RS-2 / RS-3 by weight: weights are relative to t of each size via `weight_of(t)`.
pub fn rs_weighted(tier: Tier, weights: &dyn Fn(usize) -> Vec<usize>, subset_ks: &dyn Fn(usize) -> Vec<usize>, jobs: &mut Vec<Job>) {
    for si in 0..48 {
        let sy = &SYMBOLS[si];
        let t = sy.t();
        for wgt in weights(t) {
            for base in [Base::Zero, Base::Lcg(2)] {
                for block in 0..sy.blocks {
                    jobs.push(Job::Burst { si, base, block, weight: wgt });
                    jobs.push(Job::Spread { si, base, block, weight: wgt });
                }
                jobs.push(Job::AllBlocks { si, base, weight: wgt });
            }
        }
    }
    // all position subsets for the six smallest sizes
    for si in small_sizes() {
        let sy = &SYMBOLS[si];
        let n = sy.total();
        for k in subset_ks(sy.t()) {
            if k < 2 || k > n {
                continue;
            }
            let values: &'static [u8] = if k <= 3 { &V8 } else { &V2 };
            if tier == Tier::Quick && k > 4 && n > 18 {
                continue;
            }
            for first in 0..n {
                jobs.push(Job::Subsets { si, base: Base::Lcg(3), k, first, values });
            }
        }
    }
}

/// Run all jobs in parallel: f(job, original, received, info, worker).
pub fn run_jobs<F>(ctx: &crate::explore::Ctx, jobs: &[Job], f: F)
where
    F: Fn(&Job, &[u8], &[u8], CaseInfo, &mut Worker) + Sync,
{
    ctx.par(jobs.len() as u64, |c, w| {
        let job = &jobs[c as usize];
        w.label(|| job.label());
        expand(job, &mut |orig, recv, info| f(job, orig, recv, info, w));
    });
}

pub fn size_of_word(n: usize) -> Option<usize> {
    // total codewords identify the size except for ties; the case description carries the name
    SYMBOLS.iter().position(|s| s.total() == n)
}


/// RS-S: syndrome-prefix families within the correction capacity.
pub fn rs_syndrome_prefix(tier: Tier, jobs: &mut Vec<Job>) {
    let pow_alpha = |n: usize| -> Vec<u8> { std::iter::once(0u8).chain((0..n).map(|i| gf::pow(2, i))).collect() };
    for si in 0..48 {
        let sy = &SYMBOLS[si];
        let t = sy.t();
        let big = sy.total() > 300;
        for block in 0..sy.blocks {
            if block != 0 && block != sy.blocks - 1 && (tier == Tier::Quick || big) {
                continue;
            }
            let n = blk_idx(sy, block).len();
            let nd = n - sy.ec_per_block();
            let ws: Vec<usize> = match (tier, big) {
                (Tier::Quick, true) => vec![2, 4],
                (Tier::Quick, false) => (2..=t.min(5)).collect(),
                (Tier::Thorough, true) => (2..=t.min(5)).collect(),
                (Tier::Thorough, false) => (2..=t.min(6)).collect(),
            };
            for w in ws {
                if w > t || w > n {
                    continue;
                }
                let alpha = match (w, tier, big) {
                    (_, Tier::Quick, true) => pow_alpha(5),
                    (2..=4, _, _) => pow_alpha(7),
                    (5, Tier::Quick, _) => pow_alpha(4),
                    (5, _, _) => pow_alpha(6),
                    _ => pow_alpha(4),
                };
                // position sets: start of the data, across the data/EC boundary, spread, end of EC
                let mut sets: Vec<Vec<usize>> = vec![
                    (0..w).collect(),
                    (0..w).map(|i| (nd + i).saturating_sub(w / 2).min(n - 1)).collect(),
                    (0..w).map(|i| i * (n - 1) / (w - 1).max(1)).collect(),
                    (n - w..n).collect(),
                ];
                for s in sets.iter_mut() {
                    s.sort_unstable();
                    s.dedup();
                }
                sets.retain(|s| s.len() == w);
                sets.dedup();
                if tier == Tier::Quick && big {
                    sets.truncate(2);
                }
                for positions in sets {
                    jobs.push(Job::SyndromePrefix { si, base: Base::Lcg(8), block, positions, alpha: alpha.clone() });
                }
            }
        }
    }
}


/// RS-H: patterns within the correction capacity with several singular Levinson/Hankel steps.
pub fn rs_hankel_singular(tier: Tier, jobs: &mut Vec<Job>) {
    let sizes: Vec<usize> = (0..48).filter(|si| {
        let sy = &SYMBOLS[*si];
        sy.t() >= 5 && (tier == Tier::Thorough || sy.total() <= 80 || sy.total() == 204 || sy.total() == 2178)
    }).collect();
    for si in sizes {
        let sy = &SYMBOLS[si];
        let t = sy.t();
        let blocks: Vec<usize> = if sy.blocks > 1 { vec![0, sy.blocks - 1] } else { vec![0] };
        for block in blocks {
            let n = blk_idx(sy, block).len();
            let nd = n - sy.ec_per_block();
            let ws: Vec<usize> = match tier {
                Tier::Quick => vec![5, t.min(7)],
                Tier::Thorough => (5..=t.min(9)).collect(),
            };
            let mut ws = ws;
            ws.dedup();
            for w in ws {
                if w > t || w > n {
                    continue;
                }
                let mut sets: Vec<Vec<usize>> = vec![
                    (0..w).collect(),
                    (0..w).map(|i| (nd + i).saturating_sub(w / 2).min(n - 1)).collect(),
                    (0..w).map(|i| i * (n - 1) / (w - 1)).collect(),
                ];
                for s in sets.iter_mut() {
                    s.sort_unstable();
                    s.dedup();
                }
                sets.retain(|s| s.len() == w);
                sets.dedup();
                if tier == Tier::Quick {
                    sets.truncate(2);
                }
                for positions in sets {
                    for j1 in 2..w {
                        if tier == Tier::Quick && j1 > 4 {
                            continue;
                        }
                        jobs.push(Job::HankelSingular { si, base: Base::Lcg(9), block, positions: positions.clone(), j1 });
                    }
                }
            }
        }
    }
}


/// RS-P: syndrome vectors by Hankel singularity profile (any weight; for the no-panic and the
/// no-false-success properties).
pub fn rs_hankel_profile(tier: Tier, jobs: &mut Vec<Job>) {
    for si in 0..48 {
        let sy = &SYMBOLS[si];
        let t = sy.t();
        if t < 3 {
            continue;
        }
        let quick_pick = matches!(sy.total(), 12 | 24 | 40) || sy.total() == 2178;
        if tier == Tier::Quick && !quick_pick {
            continue;
        }
        let depth = match (tier, sy.ec_per_block()) {
            (Tier::Quick, k) if k > 30 => t.min(5),
            (Tier::Quick, _) => t.min(6),
            (Tier::Thorough, k) if k > 30 => t.min(5),
            (Tier::Thorough, _) => t.min(7),
        };
        let blocks: Vec<usize> = if sy.blocks > 1 { vec![sy.blocks - 1] } else { vec![0] };
        for block in blocks {
            for a in [0u8, 1, 2] {
                for b in [0u8, 1, 0x1D] {
                    jobs.push(Job::HankelProfile { si, base: Base::Lcg(11), block, depth, first: [a, b] });
                }
            }
        }
    }
}
