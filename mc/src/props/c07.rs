//! C07 — module placement conforms to ISO/IEC 16022 Annex F and ISO/IEC 21471 (R3, R4).

use datamatrix::placement::{Bit, MatrixMap};
use serde_json::{json, Value};

use crate::bridge::SIZES;
use crate::explore::{guarded, hex, unhex, Ctx, Stats};
use crate::refmodel::placement::{place, Cell};
use crate::refmodel::render::{classify, pixel_of_bits, Module};
use crate::refmodel::symbols::SYMBOLS;

#[derive(Clone, Copy, PartialEq, Eq, Debug)]
pub struct Tag(u16, u8);

impl Bit for Tag {
    const LOW: Tag = Tag(0, 0);
    const HIGH: Tag = Tag(0, 1);
}

/// The crate's (codeword, bit) for every module of the rendered symbol against R3 + R4.
pub fn eval_tags(si: usize, st: &mut Stats) -> Result<(), String> {
    let sy = &SYMBOLS[si];
    let bits: Vec<Tag> = guarded(|| {
        let mut m = MatrixMap::<Tag>::new(SIZES[si]);
        m.traverse_mut(|cw, bits| {
            for (i, b) in bits.into_iter().enumerate() {
                *b = Tag(cw as u16 + 1, i as u8 + 1);
            }
        });
        m.write_padding();
        let bm = m.bitmap();
        (bm.bits().to_vec(), bm.width(), bm.height())
    })
    .map_err(|p| format!("traverse/bitmap: {}", p))
    .and_then(|(b, w, h)| {
        if w != sy.cols || h != sy.rows {
            Err(format!("bitmap is {}x{} (rows x cols), the standard has {}x{}", h, w, sy.rows, sy.cols))
        } else {
            Ok(b)
        }
    })?;
    let cells = place(sy.map_rows(), sy.map_cols());
    let mut seen = vec![false; sy.total() * 8];
    for r in 0..sy.rows {
        for c in 0..sy.cols {
            let got = bits[r * sy.cols + c];
            let want = match classify(sy, r, c) {
                Module::Border(d) => if d { Tag::HIGH } else { Tag::LOW },
                Module::Data(mr, mc) => match cells[mr * sy.map_cols() + mc] {
                    Cell::Bit(chr, bit) => Tag(chr, bit),
                    Cell::Fixed(d) => if d { Tag::HIGH } else { Tag::LOW },
                    Cell::Unset => unreachable!(),
                },
            };
            if got != want {
                return Err(format!("module (row {}, col {}): crate has {:?}, the standard's placement gives {:?}", r, c, got, want));
            }
            if got.0 != 0 {
                let i = (got.0 as usize - 1) * 8 + got.1 as usize - 1;
                if seen[i] {
                    return Err(format!("codeword bit {:?} placed twice", got));
                }
                seen[i] = true;
            }
            st.count("modules_compared");
        }
    }
    if seen.iter().any(|s| !s) {
        return Err("a codeword bit has no module".into());
    }
    st.count("nontrivial");
    Ok(())
}

pub struct RefSym {
    pub pixel: Vec<usize>,
    pub base: Vec<bool>,
}

pub fn ref_sym(si: usize) -> RefSym {
    let sy = &SYMBOLS[si];
    let zero = vec![0u8; sy.total()];
    RefSym { pixel: pixel_of_bits(sy), base: crate::refmodel::render::bitmap_of_codewords(sy, &zero) }
}

pub fn ref_bitmap(rs: &RefSym, cw: &[u8]) -> Vec<bool> {
    let mut bm = rs.base.clone();
    for (i, v) in cw.iter().enumerate() {
        for bit in 0..8 {
            if v >> (7 - bit) & 1 == 1 {
                bm[rs.pixel[i * 8 + bit]] = true;
            }
        }
    }
    bm
}

/// Value independence: the rendering of a codeword vector equals the reference rendering and
/// reading the codewords back inverts writing them.
pub fn eval_vector(si: usize, rs: &RefSym, cw: &[u8], st: &mut Stats) -> Result<(), String> {
    let (bits, back) = guarded(|| {
        let m = MatrixMap::new_with_codewords(cw, SIZES[si]);
        (m.bitmap().bits().to_vec(), m.codewords())
    })
    .map_err(|p| format!("new_with_codewords/bitmap/codewords: {}", p))?;
    let want = ref_bitmap(rs, cw);
    if bits != want {
        let i = bits.iter().zip(want.iter()).position(|(a, b)| a != b).unwrap_or(0);
        let cols = SYMBOLS[si].cols;
        return Err(format!("rendered module (row {}, col {}) is {} but the standard's placement gives {}", i / cols, i % cols, bits.get(i).copied().unwrap_or(false), want[i]));
    }
    if back != cw {
        return Err("codewords() does not return the codewords written".into());
    }
    st.count("vectors");
    st.count("nontrivial");
    Ok(())
}

fn vdesc(si: usize, cw: &[u8]) -> Value {
    json!({"size": crate::bridge::size_name(si), "codewords": hex(cw)})
}

pub fn run(ctx: &Ctx) -> i32 {
    ctx.par(48, |c, w| {
        let si = c as usize;
        w.label(|| format!("tags {}", SYMBOLS[si].name()));
        w.sample(|| json!({"size": crate::bridge::size_name(si), "kind": "tags"}));
        w.check(si as u64, || json!({"size": crate::bridge::size_name(si), "kind": "tags"}), |st| eval_tags(si, st));
    });
    // single-bit vectors, their complements, LCG vectors; chunk = (size, range of codewords)
    let mut chunks = Vec::new();
    for si in 0..48 {
        let n = SYMBOLS[si].total();
        let mut a = 0;
        while a < n {
            let b = (a + 64).min(n);
            chunks.push((si, a, b));
            a = b;
        }
    }
    let refs: Vec<RefSym> = (0..48).map(ref_sym).collect();
    ctx.par(chunks.len() as u64, |c, w| {
        let (si, a, b) = chunks[c as usize];
        let n = SYMBOLS[si].total();
        w.label(|| format!("single-bit vectors {} codewords {}..{}", SYMBOLS[si].name(), a, b));
        let mut cw = vec![0u8; n];
        for i in a..b {
            for bit in 0..8 {
                cw[i] = 1 << bit;
                w.check(si as u64, || vdesc(si, &cw), |st| eval_vector(si, &refs[si], &cw, st));
                // complement
                let comp: Vec<u8> = cw.iter().map(|x| !x).collect();
                w.check(si as u64, || vdesc(si, &comp), |st| eval_vector(si, &refs[si], &comp, st));
            }
            cw[i] = 0;
        }
        if a == 0 {
            for seed in 1..=3u64 {
                let mut s = seed * 77 + si as u64;
                let v: Vec<u8> = (0..n)
                    .map(|_| {
                        s = s.wrapping_mul(6364136223846793005).wrapping_add(1442695040888963407);
                        (s >> 33) as u8
                    })
                    .collect();
                w.sample(|| vdesc(si, &v));
                w.check(si as u64, || vdesc(si, &v), |st| eval_vector(si, &refs[si], &v, st));
            }
        }
    });
    let cov = json!({
        "evaluations": ctx.evaluations(),
        "distinct_nontrivial": ctx.counter("nontrivial"),
        "rule": "48 sizes: (1) a tagging Bit type through MatrixMap::traverse_mut + write_padding + bitmap gives the crate's (codeword, bit) of every module, compared module by module with the \
port of the Annex F program R3 (with the ISO 21471 row wrap) composed with the finder renderer R4, and checked to be a bijection; (2) every single-bit codeword vector, its complement and 3 LCG vectors: \
new_with_codewords().bitmap() equals the reference rendering and codewords() returns the vector. All cases distinct and non-trivial.",
        "exhaustive": true,
        "modules_compared": ctx.counter("modules_compared"),
    });
    ctx.finish("exploration", cov, vec![
        "R3 is a port of the Annex F.1 program from the text of the standard; its first and last row for 10x10 are checked against Figure F.1 at start-up".into(),
        "value independence beyond single-bit vectors and complements rests on the placement code not reading the values (it is generic over the Bit type)".into(),
    ])
}

pub fn replay(case: &Value) -> Result<(), String> {
    let name = case["size"].as_str().ok_or("size")?;
    let si = (0..48).find(|i| crate::bridge::size_name(*i) == name).ok_or("unknown size")?;
    if case["kind"] == "tags" {
        return eval_tags(si, &mut Stats::default());
    }
    eval_vector(si, &ref_sym(si), &unhex(case["codewords"].as_str().ok_or("codewords")?), &mut Stats::default())
}
