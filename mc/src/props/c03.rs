//! C03 — guaranteed Reed-Solomon correction capacity in every symbol size.

use datamatrix::errorcode::decode_error;
use datamatrix::{DataMatrix, SymbolList};
use serde_json::{json, Value};

use super::rs::{self, Job};
use crate::bridge::{self, SIZES};
use crate::explore::{guarded, hex, unhex, Ctx, Stats, Tier};
use crate::refmodel::render::pixel_of_bits;
use crate::refmodel::symbols::SYMBOLS;

pub fn eval(si: usize, orig: &[u8], recv: &[u8], st: &mut Stats) -> Result<(), String> {
    let mut cw = recv.to_vec();
    let r = guarded(|| decode_error(&mut cw, SIZES[si])).map_err(|p| format!("decode_error: {}", p));
    let r = match r {
        Ok(r) => r,
        Err(p) => return Err(p),
    };
    if let Err(e) = r {
        return Err(format!("decode_error reports {:?} for a pattern within the correction capacity", e));
    }
    if cw != orig {
        let wrong: Vec<usize> = (0..cw.len()).filter(|i| cw[*i] != orig[*i]).take(8).collect();
        return Err(format!("decode_error returned Ok but codewords {:?} are not restored", wrong));
    }
    st.count("restored");
    st.count("nontrivial");
    Ok(())
}

fn desc(si: usize, orig: &[u8], recv: &[u8]) -> Value {
    let errs: Vec<Value> = (0..orig.len()).filter(|i| orig[*i] != recv[*i]).map(|i| json!([i, orig[i] ^ recv[i]])).collect();
    json!({"size": bridge::size_name(si), "original": hex(orig), "errors": errs})
}

/// Damage through the rendered symbol: flip modules of up to t codewords of one block.
pub fn eval_pixels(si: usize, msg: &[u8], flips: &[usize], st: &mut Stats) -> Result<(), String> {
    let dm = DataMatrix::encode(msg, SymbolList::with_whitelist([SIZES[si]])).map_err(|e| format!("cannot encode the test message: {:?}", e))?;
    let bm = dm.bitmap();
    let mut px = bm.bits().to_vec();
    for f in flips {
        px[*f] = !px[*f];
    }
    let r = guarded(|| DataMatrix::decode(&px, bm.width())).map_err(|p| format!("DataMatrix::decode: {}", p))?;
    match r {
        Ok(out) if out == msg => {
            st.count("restored_through_symbol");
            st.count("nontrivial");
            Ok(())
        }
        other => Err(format!("decode of the damaged symbol gives {:?}", other.map(|v| hex(&v)))),
    }
}

/// One flipped module in every codeword in turn, and t damaged codewords at every burst offset
/// for the small sizes.
fn pixel_jobs_dense(si: usize) -> Vec<(Vec<u8>, Vec<usize>)> {
    let sy = &SYMBOLS[si];
    let msg: Vec<u8> = (0..sy.data / 2 + 1).map(|i| b"Az09 *"[i % 6]).collect();
    let px = pixel_of_bits(sy);
    let mut out = Vec::new();
    for cw in 0..sy.total() {
        out.push((msg.clone(), vec![px[cw * 8 + cw % 8]]));
    }
    if sy.total() <= 72 {
        let t = sy.t();
        let idx = rs::blk_idx(sy, 0);
        for o in 0..=idx.len() - t {
            let flips: Vec<usize> = (0..t).map(|i| px[idx[o + i] * 8 + (o + i) % 8]).collect();
            out.push((msg.clone(), flips));
        }
    }
    out
}

fn pixel_jobs(si: usize) -> Vec<(Vec<u8>, Vec<usize>)> {
    // a message that fills about half of the symbol
    let sy = &SYMBOLS[si];
    let msg: Vec<u8> = (0..sy.data / 2 + 1).map(|i| b"Az09 *"[i % 6]).collect();
    let px = pixel_of_bits(sy);
    let t = sy.t();
    let mut out = Vec::new();
    for b in 0..sy.blocks {
        let idx = rs::blk_idx(sy, b);
        let n = idx.len();
        for o in [0, (n - t) / 2, n - t] {
            // codeword o+i of the block gets 1 + (i % 8) modules flipped
            let mut flips = Vec::new();
            for i in 0..t {
                let cw = idx[o + i];
                for bit in 0..(1 + (i + o) % 8) {
                    flips.push(px[cw * 8 + bit]);
                }
            }
            out.push((msg.clone(), flips));
        }
    }
    out
}

pub fn run(ctx: &Ctx) -> i32 {
    let mut jobs: Vec<Job> = Vec::new();
    rs::rs1(ctx.tier, &mut jobs);
    rs::rs_weighted(
        ctx.tier,
        &|t| {
            let mut w = vec![2, t / 2, t.saturating_sub(1), t];
            w.retain(|x| *x >= 2 && *x <= t);
            w.sort_unstable();
            w.dedup();
            w
        },
        &|t| {
            let mut k: Vec<usize> = (2..=t.min(3)).collect();
            if t > 3 {
                k.push(t);
            }
            k
        },
        &mut jobs,
    );
    rs::rs_syndrome_prefix(ctx.tier, &mut jobs);
    rs::rs_hankel_singular(ctx.tier, &mut jobs);
    rs::run_jobs(ctx, &jobs, |job, orig, recv, info, w| {
        let si = match job {
            Job::Single { si, .. } | Job::Subsets { si, .. } | Job::Burst { si, .. } | Job::Spread { si, .. } | Job::AllBlocks { si, .. } | Job::SyndromePrefix { si, .. } => *si,
            _ => return,
        };
        if info.max_block_weight > SYMBOLS[si].t() {
            return;
        }
        w.stats.max("errors_per_block", info.max_block_weight as u64);
        w.stats.distinct("sizes", si as u64);
        w.sample(|| desc(si, &[], &[]).as_object().map(|_| json!({"size": bridge::size_name(si), "job": job.label()})).unwrap());
        w.check((si * 1000 + info.max_block_weight) as u64, || desc(si, orig, recv), |st| eval(si, orig, recv, st));
    });
    // through the rendered symbol
    ctx.par(48, |c, w| {
        let si = c as usize;
        w.label(|| format!("flipped modules {}", SYMBOLS[si].name()));
        for (msg, flips) in pixel_jobs(si).into_iter().chain(pixel_jobs_dense(si)) {
            w.check(
                (si * 1000) as u64,
                || json!({"size": bridge::size_name(si), "message": hex(&msg), "flipped_pixels": flips}),
                |st| eval_pixels(si, &msg, &flips, st),
            );
        }
    });
    let cov = json!({
        "evaluations": ctx.evaluations(),
        "distinct_nontrivial": ctx.counter("nontrivial"),
        "rule": format!("fault patterns of weight <= floor(k/2) per interleaved block on reference codewords (zero data, LCG data) of all 48 sizes: RS-1 every position x error values ({}); \
RS-2 bursts at every in-block offset (data region, EC region, across the boundary), spread patterns and all blocks damaged at once for weights 2, t/2, t-1, t; for the six sizes with <= 24 codewords all \
position subsets of size 2..min(t,3) x 8 values and of size t x 2 values (quick: not for the two largest of them beyond size 4); RS-S syndrome-prefix family: for weights w = 2..min(t,5|6) and four position sets per block (start of data, across the data/EC boundary, spread, end of EC) the error values that realise every syndrome prefix (S_1..S_w) over {{0}} and powers of 2 (8^w for w <= 4) - this drives the decoder through its singular cases (leading zero syndromes, geometric syndrome sequences) inside the guaranteed region; RS-H Hankel-singular family: for sizes with t >= 5, w = 5..7 (9) errors at two or three position sets per block, two error values swept over all 255 x 255 combinations and the last one solved so that the leading Hankel minor H_j1 of the syndrome sequence vanishes (j1 = 2..w-1), kept when a second, non-adjacent leading minor vanishes as well - patterns within the capacity that take the decoder through two separate singular steps in one block (a 1/65025 coincidence for random patterns); plus damage through flipped modules of the rendered symbol \
(t codewords of each block at three offsets, 1-8 modules each; one module of every codeword in turn; for sizes up to 72 codewords t codewords at every burst offset; module positions from R3/R4). Patterns are distinct by construction, all non-trivial. Oracle: Ok and exact restoration.",
            if ctx.tier == Tier::Thorough { "all 255" } else { "1, 0x80, 0xFF everywhere; all 255 at every position of the sizes with <= 300 codewords and at the first/last data and EC codeword of every block of the larger ones" }),
        "exhaustive": true,
        "max_errors_per_block": ctx.maximum("errors_per_block"),
        "sizes_covered": ctx.distinct("sizes"),
    });
    ctx.finish("fault_enumeration", cov, vec![
        "codewords are built with the reference encoder R1, not with the crate".into(),
        "weights 3..t on large symbols are covered by the burst/spread/all-blocks families only (DESIGN.md §9)".into(),
    ])
}

pub fn replay(case: &Value) -> Result<(), String> {
    let name = case["size"].as_str().ok_or("size")?;
    let si = (0..48).find(|i| bridge::size_name(*i) == name).ok_or("unknown size")?;
    if let Some(m) = case["message"].as_str() {
        let flips: Vec<usize> = case["flipped_pixels"].as_array().ok_or("flipped_pixels")?.iter().map(|v| v.as_u64().unwrap() as usize).collect();
        return eval_pixels(si, &unhex(m), &flips, &mut Stats::default());
    }
    let orig = unhex(case["original"].as_str().ok_or("original")?);
    let mut recv = orig.clone();
    for e in case["errors"].as_array().ok_or("errors")? {
        recv[e[0].as_u64().unwrap() as usize] ^= e[1].as_u64().unwrap() as u8;
    }
    eval(si, &orig, &recv, &mut Stats::default())
}
