//! C17 — the vector path renders exactly the dark modules (R8: even-odd scanline rasteriser).

use datamatrix::placement::{Bitmap, PathSegment};
use serde_json::{json, Value};

use super::common;
use crate::bridge::{Cfg, ListMask};
use crate::explore::{guarded, Ctx, Stats, Tier};
use crate::gen::{Family, SIGMA10};
use crate::refmodel::raster::{parse_unicode, rasterise, Seg};
use crate::refmodel::symbols::SYMBOLS;

fn bits_str(b: &[bool]) -> String {
    b.iter().map(|x| if *x { '1' } else { '0' }).collect()
}

pub fn eval(bits: &[bool], w: usize, st: &mut Stats) -> Result<(), String> {
    let h = bits.len() / w;
    let bm = Bitmap::new(bits.iter().copied(), w);
    // pixels(): exactly the dark modules, row-major, (x, y)
    let px: Vec<(usize, usize)> = guarded(|| bm.pixels().collect()).map_err(|p| format!("pixels: {}", p))?;
    let want: Vec<(usize, usize)> = (0..bits.len()).filter(|i| bits[*i]).map(|i| (i % w, i / w)).collect();
    if px != want {
        return Err("pixels() does not yield exactly the dark modules in row-major order".into());
    }
    // unicode(): dark modules inside a one-module light border
    let text = guarded(|| bm.unicode()).map_err(|p| format!("unicode: {}", p))?;
    let (grid, gw, gh) = parse_unicode(&text).map_err(|e| format!("unicode(): {}", e))?;
    if gw != w + 2 || gh < h + 2 || gh > h + 3 {
        return Err(format!("unicode() renders a {}x{} grid for a {}x{} bitmap", gw, gh, w, h));
    }
    for r in 0..gh {
        for c in 0..gw {
            let inside = r >= 1 && r <= h && c >= 1 && c <= w;
            let want = inside && bits[(r - 1) * w + (c - 1)];
            if grid[r * gw + c] != want {
                return Err(format!("unicode(): cell (row {}, col {}) is {}", r, c, grid[r * gw + c]));
            }
        }
    }
    // path(): only meaningful (starting point = top-left corner) if the top-left module is dark
    if !bits[0] {
        st.count("top_left_light_path_not_judged");
        return Ok(());
    }
    let path = guarded(|| bm.path()).map_err(|p| format!("path: {}", p))?;
    let segs: Vec<Seg> = path
        .iter()
        .map(|s| match s {
            PathSegment::Move(dx, dy) => Seg::Move(*dx as i32, *dy as i32),
            PathSegment::Horizontal(d) => Seg::Horizontal(*d as i32),
            PathSegment::Vertical(d) => Seg::Vertical(*d as i32),
            PathSegment::Close => Seg::Close,
        })
        .collect();
    let r = rasterise(&segs, w, h).map_err(|e| format!("path {:?}: {}", path, e))?;
    if r.filled != bits {
        let i = r.filled.iter().zip(bits.iter()).position(|(a, b)| a != b).unwrap();
        return Err(format!("even-odd fill of the path differs at (row {}, col {}): filled {} / dark {}; path {:?}", i / w, i % w, r.filled[i], bits[i], path));
    }
    st.max("subpaths", r.subpaths as u64);
    st.distinct("subpath_counts", r.subpaths as u64);
    if r.subpaths > 1 || segs.len() > 5 {
        st.count("nontrivial");
    }
    Ok(())
}

/// Large synthetic shapes: frame, checkerboard, nested rings, solid, corner dot + bottom row.
pub fn big_shape(k: usize, w: usize, h: usize) -> Vec<bool> {
    (0..w * h)
        .map(|i| {
            let (r, c) = (i / w, i % w);
            match k {
                0 => r == 0 || c == 0 || r == h - 1 || c == w - 1,
                1 => (r + c) % 2 == 0,
                2 => r.min(c).min(h - 1 - r).min(w - 1 - c) % 2 == 0,
                3 => true,
                4 => i == 0 || i == w * h - 1 || r == h - 1,
                // fixed pseudo-random textures (a multiplicative hash of the cell index): many
                // components, holes and diagonal contacts, outlines of several hundred thousand steps
                5 => i == 0 || (i as u64).wrapping_mul(0x9E37_79B9_7F4A_7C15).rotate_left(17) >> 63 == 1,
                6 => i == 0 || (i as u64 ^ 0x5555).wrapping_mul(0xD6E8_FEB8_6659_FD93).rotate_left(23) >> 62 == 0,
                // rows alternately joined at the right and at the left end (one long snake)
                7 => r % 2 == 0 || (r % 4 == 1 && c == w - 1) || (r % 4 == 3 && c == 0),
                // comb
                _ => r == 0 || c % 2 == 0,
            }
        })
        .collect()
}

fn desc(bits: &[bool], w: usize) -> Value {
    json!({"width": w, "bits": bits_str(bits)})
}

pub fn run(ctx: &Ctx) -> i32 {
    // 1. all w x h arrays with a dark top-left module, w*h <= limit
    let limit = ctx.tier.pick(22usize, 25);
    let mut chunks: Vec<(usize, usize, u64, u64)> = Vec::new();
    for w in 1..=limit {
        for h in 1..=limit / w {
            let n = 1u64 << (w * h - 1);
            let per = 1 << 14;
            let mut a = 0;
            while a < n {
                chunks.push((w, h, a, (a + per).min(n)));
                a += per;
            }
        }
    }
    ctx.par(chunks.len() as u64, |c, wk| {
        let (w, h, a, b) = chunks[c as usize];
        wk.label(|| format!("all {}x{} bitmaps {}..{}", w, h, a, b));
        let mut bits = vec![false; w * h];
        for v in a..b {
            bits[0] = true;
            for k in 1..w * h {
                bits[k] = v >> (k - 1) & 1 == 1;
            }
            wk.sample(|| desc(&bits, w));
            wk.check((w * h) as u64, || desc(&bits, w), |st| eval(&bits, w, st));
        }
    });
    // 1b. the same shapes with a light top-left module: pixels()/unicode() only (small)
    ctx.par(12, |c, wk| {
        let w = c as usize + 1;
        wk.label(|| format!("light top-left width {}", w));
        for h in 1..=12 / w {
            for v in 0u64..1 << (w * h - 1) {
                let mut bits = vec![false; w * h];
                for k in 1..w * h {
                    bits[k] = v >> (k - 1) & 1 == 1;
                }
                wk.check((w * h) as u64, || desc(&bits, w), |st| eval(&bits, w, st));
            }
        }
    });
    // 2. bitmaps of encoded symbols: every size with several contents; a sweep of short inputs
    ctx.par(48, |c, wk| {
        let si = c as usize;
        let sy = &SYMBOLS[si];
        wk.label(|| format!("encoded symbols {}", sy.name()));
        let cfg = Cfg { list: ListMask::single(si), ..Cfg::plain() };
        let nmsg = ctx.tier.pick(6usize, 40);
        for k in 0..nmsg {
            let msg: Vec<u8> = (0..(sy.data * (k % 3 + 1) / 4).max(k % 2)).map(|i| b"Az09 *\x80~"[(i * (k + 1)) % 8]).collect();
            if let common::Enc::Ok(dm) = common::encode(&cfg, &msg) {
                let bm = dm.bitmap();
                let bits = bm.bits().to_vec();
                wk.check((sy.rows * sy.cols) as u64, || desc(&bits, sy.cols), |st| {
                    eval(&bits, sy.cols, st)?;
                    st.count("encoded_symbols");
                    Ok(())
                });
            }
        }
    });
    let fam = Family::Over { alpha: SIGMA10.to_vec(), min: 0, max: ctx.tier.pick(3, 4) };
    let n = fam.size();
    ctx.par((n + 31) / 32, |c, wk| {
        wk.label(|| format!("encoded short inputs chunk {}", c));
        let mut s = Vec::new();
        for i in c * 32..((c + 1) * 32).min(n) {
            fam.get(i, &mut s);
            for list in [ListMask::default_list(), ListMask(ListMask::all().0 & !ListMask::default_list().0 | 1 << 24)] {
                let cfg = Cfg { list, ..Cfg::plain() };
                if let common::Enc::Ok(dm) = common::encode(&cfg, &s) {
                    let bm = dm.bitmap();
                    let bits = bm.bits().to_vec();
                    let w = bm.width();
                    wk.check(bits.len() as u64, || desc(&bits, w), |st| {
                        eval(&bits, w, st)?;
                        st.count("encoded_symbols");
                        Ok(())
                    });
                }
            }
        }
    });
    // 3. synthetic topologies at 12x12 .. 16x16: nested rings, diagonal chains, combs, checkerboards
    ctx.seq(|wk| {
        wk.label(|| "synthetic topologies".into());
        for n in [8usize, 12, 13, 16] {
            let mut shapes: Vec<Vec<bool>> = Vec::new();
            // nested rings
            shapes.push((0..n * n).map(|i| { let (r, c) = (i / n, i % n); let d = r.min(c).min(n - 1 - r).min(n - 1 - c); d % 2 == 0 }).collect());
            // diagonal chain
            shapes.push((0..n * n).map(|i| i / n == i % n).collect());
            // diagonal chain + anti-diagonal
            shapes.push((0..n * n).map(|i| i / n == i % n || i / n + i % n == n - 1 || i == 0).collect());
            // comb
            shapes.push((0..n * n).map(|i| i / n == 0 || (i % n) % 2 == 0).collect());
            // checkerboard
            shapes.push((0..n * n).map(|i| (i / n + i % n) % 2 == 0).collect());
            // all dark, single pixel, frame with centre dot
            shapes.push(vec![true; n * n]);
            shapes.push((0..n * n).map(|i| i == 0).collect());
            shapes.push((0..n * n).map(|i| { let (r, c) = (i / n, i % n); r == 0 || c == 0 || r == n - 1 || c == n - 1 || (r == n / 2 && c == n / 2) }).collect());
            // spiral-like: rows alternately joined left and right
            shapes.push((0..n * n).map(|i| { let (r, c) = (i / n, i % n); r % 2 == 0 || (r % 4 == 1 && c == n - 1) || (r % 4 == 3 && c == 0) }).collect());
            for s in shapes {
                wk.check((n * n) as u64, || desc(&s, n), |st| { eval(&s, n, st)?; st.count("synthetic"); Ok(()) });
                // and as a non-square bitmap (two rows cut off)
                let cut = &s[..n * (n - 2)];
                wk.check((n * n) as u64, || desc(cut, n), |st| eval(cut, n, st));
            }
        }
    });
    // 4. large bitmaps (the path code works on 16-bit node coordinates: up to 32766 modules per side)
    let big: Vec<(usize, usize)> = vec![(180, 180), (181, 181), (200, 200), (256, 256), (300, 300), (400, 400), (512, 512), (300, 700), (700, 300), (4000, 10), (10, 4000), (32000, 2), (2, 32000)];
    ctx.par(big.len() as u64, |c, wk| {
        let (w, h) = big[c as usize];
        wk.label(|| format!("large bitmap {}x{}", w, h));
        for k in 0..9 {
            let s = big_shape(k, w, h);
            wk.check((w * h) as u64, || json!({"width": w, "height": h, "large_shape": k}), |st| { eval(&s, w, st)?; st.count("large_bitmaps"); Ok(()) });
        }
    });
    let _ = Tier::Quick;
    let cov = json!({
        "evaluations": ctx.evaluations(),
        "distinct_nontrivial": ctx.counter("nontrivial"),
        "rule": format!("all w x h bool arrays with a dark top-left module for every (w, h) with w*h <= {} (complete); all arrays with a light top-left module up to 12 modules (pixels/unicode only); bitmaps of encoded symbols of all 48 sizes and of a sweep of short inputs; \
synthetic topologies (nested rings, diagonal chains, combs, checkerboards, spirals); large bitmaps up to 32000 modules per side and up to 512 x 512 (frame, checkerboard, rings, solid, corner dots, two fixed hash textures with outlines of several hundred thousand unit steps, snake, comb). Oracle R8: interpret the segments from (0,0) with SVG semantics, every segment non-zero and axis parallel, every sub-path closed, Move only after Close relative to the start of the closed sub-path, \
all vertices inside the bounding box, even-odd fill == dark modules; pixels() == row-major dark coordinates; unicode() parsed back == bitmap inside a one-module light border. All cases distinct; non-trivial = more than one sub-path or more than 5 segments.", limit),
        "exhaustive": true,
        "max_subpaths": ctx.maximum("subpaths"),
        "encoded_symbols": ctx.counter("encoded_symbols"),
    });
    ctx.finish("exploration", cov, vec!["bitmaps larger than the exhaustive bound only through encoded symbols and the synthetic topologies".into()])
}

pub fn replay(case: &Value) -> Result<(), String> {
    if let Some(k) = case["large_shape"].as_u64() {
        let (w, h) = (case["width"].as_u64().ok_or("width")? as usize, case["height"].as_u64().ok_or("height")? as usize);
        return eval(&big_shape(k as usize, w, h), w, &mut Stats::default());
    }
    let bits: Vec<bool> = case["bits"].as_str().ok_or("bits")?.chars().map(|c| c == '1').collect();
    eval(&bits, case["width"].as_u64().ok_or("width")? as usize, &mut Stats::default())
}
