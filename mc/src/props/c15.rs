//! C15 — ECI designators and character-set tables are exact (R7).

use datamatrix::data::{decode_data, decode_str, DataDecodingError};
use datamatrix::verif_hooks::eci_spans;
use datamatrix::DataMatrixBuilder;
use serde_json::{json, Value};

use crate::explore::{guarded, hex, unhex, Ctx, Stats, Tier};
use crate::gen::Family;
use crate::refmodel::charset;
use crate::refmodel::decoder::{rand255, read_eci, write_eci};

/// Write side: the designator written for ECI number n, and reading it back.
pub fn eval_number(n: u32, st: &mut Stats) -> Result<(), String> {
    let dm = guarded(|| DataMatrixBuilder::new().encode_eci(b"A", Some(n)))
        .map_err(|p| format!("encode_eci: {}", p))?
        .map_err(|e| format!("encode_eci fails: {:?}", e))?;
    let cw = dm.data_codewords();
    let want = write_eci(n);
    if cw.first() != Some(&241) || cw.get(1..1 + want.len()) != Some(&want[..]) {
        return Err(format!("designator written {:?}, ISO/IEC 16022 Table 6 gives 241 {:?}", &cw[..cw.len().min(5)], want));
    }
    if cw.get(1 + want.len()) != Some(&66) {
        return Err(format!("data does not follow the designator: {:?}", &cw[..cw.len().min(6)]));
    }
    let spans = guarded(|| eci_spans(cw)).map_err(|p| format!("decoder: {}", p))?.map_err(|e| format!("decoder rejects the designator: {:?}", e))?;
    if spans != vec![(0usize, n)] {
        return Err(format!("read back as {:?}", spans));
    }
    if decode_data(cw) != Err(DataDecodingError::ECICode) {
        return Err(format!("decode_data on a stream with ECI gives {:?}", decode_data(cw)));
    }
    st.distinct("designator_lengths", want.len() as u64);
    st.count("nontrivial");
    Ok(())
}

/// Read side: an arbitrary designator sequence.
pub fn eval_designator(seq: &[u8], st: &mut Stats) -> Result<(), String> {
    let mut cw = vec![241u8];
    cw.extend_from_slice(seq);
    let r = guarded(|| eci_spans(&cw)).map_err(|p| format!("decoder: {}", p))?;
    match read_eci(seq) {
        Ok((n, used)) if used == seq.len() => {
            match r {
                Ok(spans) if spans == vec![(0usize, n)] => {}
                other => return Err(format!("well-formed designator {:?} = ECI {} is read as {:?}", seq, n, other)),
            }
            if n > 999_999 {
                st.count("wellformed_beyond_999999");
            }
            st.count("wellformed");
        }
        Ok(_) => unreachable!("generator builds exact lengths"),
        Err(_) => {
            if let Ok(spans) = r {
                return Err(format!("malformed designator {:?} is accepted as {:?}", seq, spans));
            }
            st.count("malformed_rejected");
            st.count("nontrivial");
        }
    }
    Ok(())
}

#[derive(Clone, Copy, Debug, PartialEq, Eq)]
pub enum Carrier {
    Ascii,
    Base256,
}

/// Build a stream [241 designator] + bytes carried in ASCII/upper shift or in one Base256 field.
pub fn stream_with(eci: Option<u32>, bytes: &[u8], carrier: Carrier) -> Vec<u8> {
    let mut cw = Vec::new();
    if let Some(e) = eci {
        cw.push(241);
        cw.extend(write_eci(e));
    }
    match carrier {
        Carrier::Ascii => {
            for b in bytes {
                if *b >= 128 {
                    cw.push(235);
                    cw.push(b - 127);
                } else {
                    cw.push(b + 1);
                }
            }
        }
        Carrier::Base256 => {
            if !bytes.is_empty() {
                cw.push(231);
                for v in std::iter::once(bytes.len() as u8).chain(bytes.iter().copied()) {
                    let pos = cw.len() + 1;
                    cw.push(rand255(v, pos));
                }
            }
        }
    }
    cw
}

/// Character set semantics of decode_str.
pub fn eval_charset(eci: Option<u32>, bytes: &[u8], carrier: Carrier, st: &mut Stats) -> Result<(), String> {
    let cw = stream_with(eci, bytes, carrier);
    let got = guarded(|| decode_str(&cw)).map_err(|p| format!("decode_str: {}", p))?;
    let want: Option<String> = match eci {
        None | Some(3) => bytes.iter().map(|b| charset::latin1(*b)).collect(),
        Some(11) => bytes.iter().map(|b| charset::latin5(*b)).collect(),
        Some(13) => bytes.iter().map(|b| charset::thai(*b)).collect(),
        Some(26) => if charset::utf8_valid(bytes) { Some(String::from_utf8(bytes.to_vec()).map_err(|_| "R7 accepts what std rejects".to_string())?) } else { None },
        Some(27) => if bytes.iter().all(|b| *b < 0x80) { Some(bytes.iter().map(|b| *b as char).collect()) } else { None },
        Some(_) => return Ok(()),
    };
    match (got, want) {
        (Ok(g), Some(w)) => {
            if g != w {
                return Err(format!("bytes {:02x?} under ECI {:?} decode to {:?}, the character set gives {:?}", bytes, eci, g, w));
            }
            st.count("mapped");
            st.count("nontrivial");
        }
        (Err(DataDecodingError::CharsetError), None) => st.count("charset_error"),
        (Err(e), None) => return Err(format!("bytes {:02x?} under ECI {:?}: error {:?} instead of CharsetError", bytes, eci, e)),
        (Ok(g), None) => return Err(format!("bytes {:02x?} are undefined under ECI {:?} but decode to {:?}", bytes, eci, g)),
        (Err(e), Some(w)) => return Err(format!("bytes {:02x?} under ECI {:?} should decode to {:?} but give {:?}", bytes, eci, w, e)),
    }
    if eci.is_some() && decode_data(&cw) != Err(DataDecodingError::ECICode) {
        return Err("decode_data on a stream with ECI does not report ECICode".into());
    }
    Ok(())
}

/// Two character-set segments in one stream: [ECI e1] a [ECI e2] b.
pub fn eval_two_segments(e1: Option<u32>, a: u8, e2: u32, b: u8, st: &mut Stats) -> Result<(), String> {
    let mut cw = stream_with(e1, &[a], Carrier::Ascii);
    cw.extend(stream_with(Some(e2), &[b], Carrier::Ascii));
    let map = |e: Option<u32>, x: u8| -> Option<char> {
        match e {
            None | Some(3) => charset::latin1(x),
            Some(11) => charset::latin5(x),
            Some(13) => charset::thai(x),
            Some(26) | Some(27) => if x < 0x80 { Some(x as char) } else { None },
            _ => None,
        }
    };
    let want: Option<String> = match (map(e1, a), map(Some(e2), b)) {
        (Some(x), Some(y)) => Some([x, y].iter().collect()),
        _ => None,
    };
    let got = guarded(|| decode_str(&cw)).map_err(|p| format!("decode_str: {}", p))?;
    match (got, want) {
        (Ok(g), Some(w)) if g == w => {
            st.count("two_segments_mapped");
            st.count("nontrivial");
            Ok(())
        }
        (Err(DataDecodingError::CharsetError), None) => {
            st.count("charset_error");
            Ok(())
        }
        (g, w) => Err(format!("stream {:?}: decode_str gives {:?}, the two character sets give {:?}", cw, g, w)),
    }
}

/// Designators directly behind each other: [a under e0]? [ECI e1][ECI e2] b — the last designator
/// before a byte governs it, whatever the numeric order of the designators.
pub fn eval_adjacent(pre: Option<(Option<u32>, u8)>, e1: u32, e2: u32, b: u8, st: &mut Stats) -> Result<(), String> {
    let map = |e: Option<u32>, x: u8| -> Option<char> {
        match e {
            None | Some(3) => charset::latin1(x),
            Some(11) => charset::latin5(x),
            Some(13) => charset::thai(x),
            Some(26) | Some(27) => if x < 0x80 { Some(x as char) } else { None },
            _ => None,
        }
    };
    let mut cw = Vec::new();
    let mut want: Option<String> = Some(String::new());
    if let Some((e0, a)) = pre {
        cw.extend(stream_with(e0, &[a], Carrier::Ascii));
        want = map(e0, a).map(|c| c.to_string());
    }
    cw.extend(stream_with(Some(e1), &[], Carrier::Ascii));
    cw.extend(stream_with(Some(e2), &[b], Carrier::Ascii));
    want = match (want, map(Some(e2), b)) {
        (Some(mut s), Some(c)) => {
            s.push(c);
            Some(s)
        }
        _ => None,
    };
    let got = guarded(|| decode_str(&cw)).map_err(|p| format!("decode_str: {}", p))?;
    match (got, want) {
        (Ok(g), Some(w)) if g == w => {
            st.count("adjacent_designators_mapped");
            st.count("nontrivial");
            Ok(())
        }
        (Err(DataDecodingError::CharsetError), None) => {
            st.count("charset_error");
            Ok(())
        }
        (g, w) => Err(format!("stream {:?}: decode_str gives {:?}, the last designator before each byte gives {:?}", cw, g, w)),
    }
}

/// A stream without ECI designators read as a string: the reference decoder R5 gives the bytes, ISO 8859-1
/// gives the characters. Only disagreements on streams both sides accept (or a charset verdict) are judged.
pub fn eval_default_charset_stream(cw: &[u8], st: &mut Stats) -> Result<(), String> {
    let p = match crate::refmodel::decoder::decode(cw) {
        Ok(p) => p,
        Err(_) => {
            st.count("reference_decoder_rejects_not_judged");
            return Ok(());
        }
    };
    if p.fnc1_start || p.body.contains(&0x1D) {
        // FNC1 (as GS) inside the data is outside the character-set property
        st.count("stream_with_fnc1_or_gs_not_judged_here");
        return Ok(());
    }
    if !p.eci.is_empty() {
        st.count("stream_with_eci_not_judged_here");
        return Ok(());
    }
    // the macro envelope (with its RS, GS, EOT control characters) is passed on verbatim; the body is data
    let want: Option<String> = p.body.iter().map(|b| charset::latin1(*b)).collect::<Option<String>>().map(|body| match p.macro_cw {
        Some(236) => format!("[)>\u{1e}05\u{1d}{}\u{1e}\u{4}", body),
        Some(237) => format!("[)>\u{1e}06\u{1d}{}\u{1e}\u{4}", body),
        _ => body,
    });
    let got = guarded(|| decode_str(cw)).map_err(|p| format!("decode_str: {}", p))?;
    match (got, want) {
        (Ok(g), Some(w)) => {
            if g != w {
                return Err(format!("stream {:?}: decode_str gives {:?}, the bytes read as ISO 8859-1 give {:?}", cw, g, w));
            }
            st.count("default_charset_streams_mapped");
            st.count("nontrivial");
        }
        (Ok(g), None) => return Err(format!("stream {:?} carries bytes undefined in ISO 8859-1 but decode_str gives {:?}", cw, g)),
        (Err(DataDecodingError::CharsetError), Some(w)) => return Err(format!("stream {:?}: CharsetError, the bytes read as ISO 8859-1 give {:?}", cw, w)),
        (Err(DataDecodingError::CharsetError), None) => st.count("charset_error"),
        (Err(_), _) => st.count("crate_rejects_stream_not_judged"),
    }
    Ok(())
}

fn cdesc(eci: Option<u32>, bytes: &[u8], carrier: Carrier) -> Value {
    json!({"kind": "charset", "eci": eci, "bytes": hex(bytes), "carrier": format!("{:?}", carrier)})
}

pub fn run(ctx: &Ctx) -> i32 {
    // 1. all ECI numbers
    ctx.par(1000, |c, w| {
        w.label(|| format!("ECI numbers {}..", c * 1000));
        for n in c * 1000..(c + 1) * 1000 {
            let n = n as u32;
            w.sample(|| json!({"kind": "number", "eci": n}));
            w.check(n as u64, || json!({"kind": "number", "eci": n}), |st| eval_number(n, st));
        }
    });
    // 2. all designator sequences of the length their first codeword demands, and all truncations
    ctx.par(256, |c, w| {
        let a = c as u8;
        w.label(|| format!("designators starting with {}", a));
        let d = |s: &[u8]| json!({"kind": "designator", "seq": hex(s)});
        if c == 0 {
            w.check(0, || d(&[]), |st| eval_designator(&[], st));
        }
        match a {
            128..=191 => {
                w.check(1, || d(&[a]), |st| eval_designator(&[a], st));
                for b in 0..=255u8 {
                    w.check(2, || d(&[a, b]), |st| eval_designator(&[a, b], st));
                }
            }
            192..=207 => {
                w.check(1, || d(&[a]), |st| eval_designator(&[a], st));
                for b in 0..=255u8 {
                    w.check(2, || d(&[a, b]), |st| eval_designator(&[a, b], st));
                    for e in 0..=255u8 {
                        w.check(3, || d(&[a, b, e]), |st| eval_designator(&[a, b, e], st));
                    }
                }
            }
            _ => {
                w.check(1, || d(&[a]), |st| eval_designator(&[a], st));
            }
        };
    });
    // 3. character sets: every byte under every supported ECI, both carriers; all pairs for the 8-bit sets
    let sets: [Option<u32>; 6] = [None, Some(3), Some(11), Some(13), Some(26), Some(27)];
    ctx.par(256, |c, w| {
        let a = c as u8;
        w.label(|| format!("charsets first byte {}", a));
        for eci in sets {
            for carrier in [Carrier::Ascii, Carrier::Base256] {
                w.sample(|| cdesc(eci, &[a], carrier));
                w.check(1, || cdesc(eci, &[a], carrier), |st| eval_charset(eci, &[a], carrier, st));
                for b in 0..=255u8 {
                    if carrier == Carrier::Ascii && !matches!(eci, Some(26)) && b % 5 != 0 {
                        continue;
                    }
                    w.check(2, || cdesc(eci, &[a, b], carrier), |st| eval_charset(eci, &[a, b], carrier, st));
                }
            }
        }
    });
    // 3b. two segments with different character sets
    ctx.par(256, |c, w| {
        let a = c as u8;
        w.label(|| format!("two charset segments first byte {}", a));
        for e1 in sets {
            for e2 in [3u32, 11, 13, 26, 27] {
                for b in (0..=255u8).step_by(ctx.tier.pick(3, 1)) {
                    w.check(2, || json!({"kind": "two", "e1": e1, "a": a, "e2": e2, "b": b}), |st| eval_two_segments(e1, a, e2, b, st));
                }
            }
        }
    });
    // 3d. every byte value at several positions of longer sections (block-wise conversion paths):
    //     sections of 15..48 bytes of filler with one special byte
    ctx.par(256, |c, w| {
        let b = c as u8;
        w.label(|| format!("long sections special byte {}", b));
        for eci in sets {
            for len in [15usize, 16, 17, 31, 32, 33, 48] {
                for pos in [0usize, 7, 15, 16, len - 1] {
                    if pos >= len {
                        continue;
                    }
                    for fill in [b'a', 0xE9u8] {
                        if fill >= 0x80 && matches!(eci, Some(26) | Some(27)) {
                            continue;
                        }
                        let mut v = vec![fill; len];
                        v[pos] = b;
                        let carrier = if fill < 0x80 { Carrier::Ascii } else { Carrier::Base256 };
                        w.check(len as u64, || cdesc(eci, &v, carrier), |st| eval_charset(eci, &v, carrier, st));
                    }
                }
            }
        }
    });
    // 3e. streams without any designator, bare and behind a macro 05/06 codeword, whose first codewords
    //     take every value: Base256 fields of every length 1..=249 (the randomised length codeword runs
    //     through the values), C40/Text/X12 first pairs and EDIFACT first groups over all first bytes
    ctx.par(256, |c, w| {
        let b = c as u8;
        w.label(|| format!("default character set streams, free byte {}", b));
        let sdesc = |cw: &[u8]| json!({"kind": "stream", "codewords": hex(cw)});
        for head in [&[][..], &[236u8][..], &[237u8][..]] {
            // Base256 field of length b (1..=249)
            if (1..=249).contains(&b) {
                for fill in [0xE9u8, 0x41, 0xA0] {
                    let mut cw = head.to_vec();
                    cw.push(231);
                    for v in std::iter::once(b).chain(std::iter::repeat(fill).take(b as usize)) {
                        let pos = cw.len() + 1;
                        cw.push(rand255(v, pos));
                    }
                    w.check(cw.len() as u64, || sdesc(&cw), |st| eval_default_charset_stream(&cw, st));
                }
            }
            // C40 / Text / X12: first pair (b, c2), unlatch, one ASCII character
            for latch in [230u8, 239, 238] {
                for c2 in [0u8, 1, 85, 170, 241, 255] {
                    let mut cw = head.to_vec();
                    cw.extend([latch, b, c2, 254, 0x42]);
                    w.check(cw.len() as u64, || sdesc(&cw), |st| eval_default_charset_stream(&cw, st));
                }
            }
            // EDIFACT: first group (b, x, y) ending with the unlatch value where possible
            for x in [0x1Fu8, 0x7C, 0xF1, 0x41] {
                for y in [0x00u8, 0x5F, 0xF1] {
                    let mut cw = head.to_vec();
                    cw.extend([240, b, x, y, 0x42]);
                    w.check(cw.len() as u64, || sdesc(&cw), |st| eval_default_charset_stream(&cw, st));
                }
            }
            // ASCII: the byte as the first and as the second codeword
            for other in [0x42u8, 235, 142] {
                for order in [0, 1] {
                    let mut cw = head.to_vec();
                    if order == 0 { cw.extend([b, other, 0x42]) } else { cw.extend([other, b, 0x42]) };
                    w.check(cw.len() as u64, || sdesc(&cw), |st| eval_default_charset_stream(&cw, st));
                }
            }
        }
    });
    // 3c. designators directly behind each other (no data between them), in both numeric orders,
    //     at the start of the stream and after a first segment
    ctx.par(256, |c, w| {
        let b = c as u8;
        w.label(|| format!("adjacent designators byte {}", b));
        for e1 in [3u32, 11, 13, 26, 27] {
            for e2 in [3u32, 11, 13, 26, 27] {
                w.check(3, || json!({"kind": "adj", "e1": e1, "e2": e2, "b": b}), |st| eval_adjacent(None, e1, e2, b, st));
                for (e0, a) in [(None, 0xE9u8), (Some(13u32), 0xA1), (Some(26), 0x41)] {
                    w.check(4, || json!({"kind": "adj", "e0": e0, "a": a, "pre": true, "e1": e1, "e2": e2, "b": b}), |st| eval_adjacent(Some((e0, a)), e1, e2, b, st));
                }
            }
        }
    });
    // 4. UTF-8: all 3-byte sequences (thorough) / boundary alphabet (quick), 4-byte over the boundary alphabet
    let b19: Vec<u8> = vec![0x00, 0x41, 0x7F, 0x80, 0x8F, 0x90, 0x9F, 0xA0, 0xBF, 0xC0, 0xC1, 0xC2, 0xDF, 0xE0, 0xED, 0xEF, 0xF0, 0xF4, 0xF5];
    {
        ctx.par(256, |c, w| {
            let a = c as u8;
            w.label(|| format!("utf-8 triples first byte {}", a));
            for b in 0..=255u8 {
                for d in 0..=255u8 {
                    let s = [a, b, d];
                    w.check(3, || cdesc(Some(26), &s, Carrier::Base256), |st| eval_charset(Some(26), &s, Carrier::Base256, st));
                }
            }
        });
    }
    for len in 3..=ctx.tier.pick(4usize, 5) {
        let fam = Family::Over { alpha: b19.clone(), min: len, max: len };
        let n = fam.size();
        ctx.par((n + 1023) / 1024, |c, w| {
            w.label(|| format!("utf-8 boundary alphabet length {} chunk {}", len, c));
            let mut s = Vec::new();
            for i in c * 1024..((c + 1) * 1024).min(n) {
                fam.get(i, &mut s);
                w.check(len as u64, || cdesc(Some(26), &s, Carrier::Base256), |st| eval_charset(Some(26), &s, Carrier::Base256, st));
                if i % 16 == 0 {
                    w.check(len as u64, || cdesc(Some(27), &s, Carrier::Base256), |st| eval_charset(Some(27), &s, Carrier::Base256, st));
                }
            }
        });
    }
    let cov = json!({
        "evaluations": ctx.evaluations(),
        "distinct_nontrivial": ctx.counter("nontrivial"),
        "rule": format!("write side: all 1,000,000 ECI numbers through encode_eci: codewords after 241 equal the closed formulas of ISO/IEC 16022 Table 6, are read back (hook eci_spans) as the same number, decode_data reports ECICode; \
read side: every designator sequence of the length its first codeword demands (127 + 64*256 + 16*65536) and every truncation: accepted with the right number iff well formed; character sets: ECI none/3/11/13/26/27 x all 256 bytes x ASCII(upper shift) and Base256 carriage, \
all byte pairs in Base256 (one fifth in ASCII), sections of 15..48 filler bytes with every byte value at five positions, two segments [ECI e1] a [ECI e2] b for all character-set pairs and bytes a, b, streams without designators (bare and behind a macro 05/06 codeword) whose first codewords take every value - Base256 fields of every length 1..249, C40/Text/X12 first pairs, EDIFACT first groups, ASCII pairs - read as ISO 8859-1 through the reference decoder R5; designators directly behind each other [ECI e1][ECI e2] b in both numeric orders (bare and after a first segment), all 16.7 M 3-byte sequences and all sequences of length 3..4 over a 19-value boundary alphabet under ECI 26{}: decode_str equals ISO 8859-1/-9/-11 by rule resp. passes exactly the RFC 3629 / 7-bit sequences, CharsetError elsewhere. All cases distinct; \
non-trivial = number round trip, malformed designator rejected, or defined character mapped.", if ctx.tier == Tier::Thorough { " (thorough: boundary alphabet also at length 5)" } else { "" }),
        "exhaustive": true,
        "wellformed_designators_beyond_999999_accepted_not_judged": ctx.counter("wellformed_beyond_999999"),
        "charset_errors": ctx.counter("charset_error"),
    });
    ctx.finish("exploration", cov, vec![
        "hook: feature verif-hooks exposes the ECI numbers read by the decoder (additive)".into(),
        "designators above 999999 are outside the stated property: counted, not judged".into(),
    ])
}

pub fn replay(case: &Value) -> Result<(), String> {
    let mut st = Stats::default();
    match case["kind"].as_str().unwrap_or("") {
        "number" => eval_number(case["eci"].as_u64().ok_or("eci")? as u32, &mut st),
        "designator" => eval_designator(&unhex(case["seq"].as_str().ok_or("seq")?), &mut st),
        "two" => eval_two_segments(case["e1"].as_u64().map(|e| e as u32), case["a"].as_u64().ok_or("a")? as u8, case["e2"].as_u64().ok_or("e2")? as u32, case["b"].as_u64().ok_or("b")? as u8, &mut st),
        "stream" => eval_default_charset_stream(&unhex(case["codewords"].as_str().ok_or("codewords")?), &mut st),
        "adj" => {
            let pre = if case["pre"].as_bool().unwrap_or(false) { Some((case["e0"].as_u64().map(|e| e as u32), case["a"].as_u64().ok_or("a")? as u8)) } else { None };
            eval_adjacent(pre, case["e1"].as_u64().ok_or("e1")? as u32, case["e2"].as_u64().ok_or("e2")? as u32, case["b"].as_u64().ok_or("b")? as u8, &mut st)
        }
        "charset" => {
            let carrier = if case["carrier"] == "Ascii" { Carrier::Ascii } else { Carrier::Base256 };
            eval_charset(case["eci"].as_u64().map(|e| e as u32), &unhex(case["bytes"].as_str().ok_or("bytes")?), carrier, &mut st)
        }
        _ => Err("unknown case kind".into()),
    }
}
