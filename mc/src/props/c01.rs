//! C01 — encode -> symbol -> decode returns exactly the original bytes.

use datamatrix::data::decode_data;
use datamatrix::DataMatrix;
use serde_json::{json, Value};

use super::common::{self, Enc, Flavor};
use crate::bridge::Cfg;
use crate::explore::{Ctx, Stats};
use crate::gen;
use crate::refmodel::decoder;

pub fn eval(cfg: &Cfg, input: &[u8], st: &mut Stats) -> Result<(), String> {
    match common::encode(cfg, input) {
        Enc::Panic(_) => {
            st.count("encode_panicked_see_C11");
            Ok(())
        }
        Enc::Refused(_) => {
            st.count("refused");
            Ok(())
        }
        Enc::Ok(dm) => {
            st.count("encoded");
            let bm = dm.bitmap();
            let via_pixels = DataMatrix::decode(bm.bits(), bm.width());
            if via_pixels.as_deref() != Ok(input) {
                return Err(format!("decode(pixels) = {:?}", via_pixels.map(|v| crate::explore::hex(&v))));
            }
            let via_cw = decode_data(dm.data_codewords());
            if via_cw.as_deref() != Ok(input) {
                return Err(format!("decode_data(codewords) = {:?}", via_cw.map(|v| crate::explore::hex(&v))));
            }
            st.distinct("symbols_chosen", crate::bridge::ref_index(dm.size) as u64);
            // non-vacuity statistics through the reference parse (informational here)
            if let Ok(p) = decoder::decode(dm.data_codewords()) {
                common::note_parse(st, &p);
                if common::nontrivial_parse(&p) {
                    st.count("nontrivial");
                }
                if p.pad_start.is_none() {
                    st.count("ends_exactly_at_capacity");
                }
            }
            Ok(())
        }
    }
}

pub fn run(ctx: &Ctx) -> i32 {
    let parts = common::std_sweep(ctx.tier, Flavor::RoundTrip);
    gen::sweep(ctx, &parts, |_pi, input, cfg, w| {
        w.sample(|| cfg.to_json(input));
        w.check(common::case_size(input, cfg), || cfg.to_json(input), |st| eval(cfg, input, st));
    });
    let cov = json!({
        "evaluations": ctx.evaluations(),
        "distinct_nontrivial": ctx.counter("nontrivial"),
        "rule": format!("every (input, configuration) case of the sweep is distinct (cases already contained in an earlier part are skipped); \
non-trivial = encoding succeeded and the stream uses a latch, a non-ASCII carrier, a macro or FNC1 header. Sweep: {}", gen::describe_parts(&parts)),
        "exhaustive": true,
        "bounds": "inputs and configurations as listed in rule; every listed family is enumerated completely",
    });
    ctx.finish("exploration", cov, vec![
        "the oracle is the inverse law itself: no reference model is trusted".into(),
        "symbol lists beyond the enumerated ones are covered only by the capacity-profile argument of DESIGN.md §5".into(),
    ])
}

pub fn replay(case: &Value) -> Result<(), String> {
    let (cfg, input) = Cfg::from_json(case);
    eval(&cfg, &input, &mut Stats::default())
}
