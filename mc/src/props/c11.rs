//! C11 — encoding is total and failures are classified correctly (both build profiles).

use datamatrix::data::{encodation_plan, encode_data, DataEncodingError};
use serde_json::{json, Value};

use super::common::{self, Flavor};
use crate::bridge::{self, Cfg, ListMask, ALL_MODES};
use crate::explore::{guarded, is_child, run_plain_child, Ctx, Stats, Tier};
use crate::gen::{self, Family, Part, SIGMA10};

fn classify(r: &Result<(), DataEncodingError>, cfg: &Cfg, api: &str, st: &mut Stats) -> Result<(), String> {
    let empty = cfg.list.is_empty();
    match r {
        Ok(()) => {
            st.count("ok");
            if empty {
                return Err(format!("{}: succeeded with an empty symbol list", api));
            }
        }
        Err(DataEncodingError::SymbolListEmpty) => {
            st.count("err_symbol_list_empty");
            if !empty {
                return Err(format!("{}: SymbolListEmpty although the list is not empty", api));
            }
        }
        Err(DataEncodingError::TooMuchOrIllegalData) => {
            st.count("err_too_much_or_illegal");
            if empty {
                return Err(format!("{}: TooMuchOrIllegalData although the list is empty", api));
            }
        }
    }
    Ok(())
}

pub fn eval(cfg: &Cfg, input: &[u8], st: &mut Stats) -> Result<(), String> {
    // 1. builder
    let r = guarded(|| cfg.encode(input)).map_err(|p| format!("DataMatrixBuilder::encode: {}", p))?;
    classify(&r.map(|_| ()), cfg, "DataMatrixBuilder::encode", st)?;
    // 2. data::encode_data (no FNC1 option there)
    if !cfg.fnc1 {
        let list = cfg.list.to_list();
        let r = guarded(|| encode_data(input, &list, cfg.eci, bridge::modes(cfg.modes), cfg.macros))
            .map_err(|p| format!("data::encode_data: {}", p))?;
        classify(&r.map(|_| ()), cfg, "data::encode_data", st)?;
        // 3. data::encodation_plan
        if cfg.eci.is_none() {
            let r = guarded(|| encodation_plan(input, &list, bridge::modes(cfg.modes))).map_err(|p| format!("data::encodation_plan: {}", p))?;
            st.count(if r.is_some() { "plan_some" } else { "plan_none" });
        }
    }
    // 4. string API
    if cfg.eci.is_none() {
        if let Ok(s) = std::str::from_utf8(input) {
            let r = guarded(|| cfg.builder().encode_str(s)).map_err(|p| format!("DataMatrixBuilder::encode_str: {}", p))?;
            classify(&r.map(|_| ()), cfg, "DataMatrixBuilder::encode_str", st)?;
        }
    }
    if cfg.modes & 1 == 0 || cfg.list != ListMask::default_list() || cfg.fnc1 || cfg.eci.is_some() {
        st.count("nontrivial");
    }
    Ok(())
}

pub fn run(ctx: &Ctx) -> i32 {
    let d = ListMask::default_list();
    let a = ListMask::all();
    let both = [false, true];
    let on = [true];
    let off = [false];
    let sq = |r, c| ListMask::single(gen::idx(r, c));
    let all64: Vec<u8> = (0..64).collect();
    let mq = gen::modes_quick();
    let mut lists_small = gen::lists_quick();
    lists_small.push(ListMask(0));
    let thorough = ctx.tier == Tier::Thorough;
    let mut parts: Vec<Part> = vec![
        Part { name: "named", family: Family::list(gen::named_inputs()), cfgs: gen::cfgs(&all64, &lists_small, &both, &both) },
        Part { name: "ES-A full<=1 x 64 mode sets x lists", family: Family::Full { min: 0, max: 1 }, cfgs: gen::cfgs(&all64, &lists_small, &on, &both) },
        Part {
            name: "ES-A full=2",
            family: Family::Full { min: 2, max: 2 },
            cfgs: {
                let mut c = gen::cfgs(&if thorough { all64.clone() } else { vec![ALL_MODES, 0, common::NO_ASCII, 1, 0x20, 0x02] }, &[d], &on, &off);
                c.extend(gen::cfgs(&[ALL_MODES], &[sq(10, 10), sq(12, 12), ListMask(0)], &on, &off));
                c
            },
        },
        Part {
            name: "ES-B sigma10<=3 x 64 mode sets x lists",
            family: Family::Over { alpha: SIGMA10.to_vec(), min: 0, max: 3 },
            cfgs: {
                let mut c = gen::cfgs(&all64, &if thorough { gen::lists_thorough() } else { lists_small.clone() }, &on, &off);
                c.extend(gen::cfgs(&mq, &[d, sq(12, 12)], &on, &on));
                c
            },
        },
        Part {
            name: "ES-B sigma10=4 x 64 mode sets",
            family: Family::Over { alpha: SIGMA10.to_vec(), min: 4, max: 4 },
            cfgs: gen::cfgs(&all64, &if thorough { lists_small.clone() } else { vec![d, sq(12, 12)] }, &on, &off),
        },
        Part {
            name: "ES-B sigma10=5",
            family: Family::Over { alpha: SIGMA10.to_vec(), min: 5, max: 5 },
            cfgs: gen::cfgs(&if thorough { all64.clone() } else { vec![ALL_MODES, common::NO_ASCII, 1, 0x02, 0x04, 0x08, 0x10, 0x20] }, &[d], &on, &off),
        },
        Part { name: "ES-C contexts", family: gen::es_c(false), cfgs: gen::cfgs(&mq, &[d, a], &on, &off) },
        Part { name: "ES-D shifted tails", family: gen::es_d(ctx.tier.pick(24, 64), &gen::SIGMA8, ctx.tier.pick(2, 3)), cfgs: gen::cfgs(&mq, &[d, a], &on, &off) },
        Part {
            name: "ES-E length sweep",
            family: if thorough { gen::es_e(true) } else { gen::es_e_sparse() },
            cfgs: {
                let mut c = gen::cfgs(&[ALL_MODES], &[d, a], &on, &off);
                c.extend(gen::cfgs(&[0x21, common::NO_ASCII], &[d], &on, &off));
                c
            },
        },
        Part { name: "ES-F macro shapes", family: gen::es_f(ctx.tier.pick(2, 3)), cfgs: gen::cfgs(&[ALL_MODES, 1, common::NO_ASCII, 0], &[d], &both, &both) },
        Part { name: "ES-F2 macro token sequences", family: gen::es_f_tokens(ctx.tier.pick(4, 5)), cfgs: gen::cfgs(&[ALL_MODES, common::NO_ASCII], &[d, ListMask(0), sq(10, 10)], &both, &both) },
        Part { name: "ES-N islands between dense runs", family: gen::es_n(ctx.tier.pick(8, 12)), cfgs: gen::cfgs(&mq, &[d, a], &on, &off) },
        Part { name: "ES-M multi-run inputs x small single lists x restricted mode sets", family: gen::es_i(ctx.tier.pick(14, 24), ctx.tier.pick(4, 6)), cfgs: gen::cfgs(&[common::NO_ASCII, 0x02, 0x04, 0x08, 0x10, 0x20], &[sq(12, 12), sq(14, 14), sq(16, 16), sq(18, 18), sq(8, 32)], &on, &off) },
        Part { name: "ES-I multi-run inputs", family: gen::es_i(ctx.tier.pick(14, 24), ctx.tier.pick(5, 7)), cfgs: gen::cfgs(&[ALL_MODES, common::NO_ASCII, 0x12, 0x14, 0x18, 0x06, 0x30], &[d], &on, &off) },
    ];
    // the structured long-input families of the encode-side sweep (DESIGN 10.3b)
    for (name, family) in [
        ("ES-T long run across 255/256 and 511/512 + short tail", gen::es_t()),
        ("ES-Q Base256 run ending at a symbol capacity + tail", gen::es_q()),
        ("ES-R mixed inputs whose single Base256 field fills a capacity", gen::es_r()),
        ("ES-J2 long runs + EDIFACT middle + suffix", gen::es_j2()),
        ("ES-P run + island + run + foreign tail", gen::es_p()),
        ("ES-U every byte value + EDIFACT run + foreign tail", gen::es_u()),
        ("ES-V run of one class + EDIFACT groups + foreign tail", gen::es_v()),
    ] {
        parts.push(Part { name, family, cfgs: gen::cfgs(&[ALL_MODES, common::NO_ASCII], &[d], &on, &off) });
    }
    let _ = Flavor::Totality;
    // one- and two-symbol lists on a core set of strings
    let mut lists: Vec<ListMask> = (0..48).map(ListMask::single).collect();
    for a in 0..48 {
        for b in a + 1..48 {
            lists.push(ListMask::of(&[a, b]));
        }
    }
    let mut core: Vec<Vec<u8>> = Vec::new();
    let fam = Family::Over { alpha: SIGMA10.to_vec(), min: 0, max: 2 };
    let mut b = Vec::new();
    for i in 0..fam.size() {
        fam.get(i, &mut b);
        core.push(b.clone());
    }
    for n in [3usize, 5, 6, 9, 10, 17, 45, 100, 250, 1000] {
        for u in [b'1', b'A', b'a', 0x80] {
            core.push(vec![u; n]);
        }
    }
    core.push(b"12345".to_vec());
    parts.push(Part { name: "1- and 2-symbol lists", family: Family::list(core), cfgs: gen::cfgs(&[ALL_MODES, common::NO_ASCII], &lists, &[true], &[false]) });
    // ECI numbers
    let ecis: Vec<u32> = if ctx.tier == Tier::Thorough {
        (0..=999_999).collect()
    } else {
        let mut v: Vec<u32> = (0..=999_999).step_by(251).collect();
        for c in [0u32, 126, 127, 16382, 16383, 999_999] {
            for d in 0..=2 {
                if c >= d {
                    v.push(c - d);
                }
                if c + d <= 999_999 {
                    v.push(c + d);
                }
            }
        }
        v.sort_unstable();
        v.dedup();
        v
    };
    let eci_cfgs: Vec<Cfg> = ecis.iter().map(|e| Cfg { modes: ALL_MODES, list: d, macros: true, fnc1: false, eci: Some(*e) }).collect();
    parts.push(Part { name: "ECI numbers", family: Family::list(vec![b"A".to_vec(), vec![], vec![0xE1, b'1', b'a']]), cfgs: eci_cfgs });

    // ECI headers together with FNC1 / macros / restricted modes / tiny lists
    let mut hdr_cfgs = Vec::new();
    for e in [3u32, 127, 16383] {
        for modes in gen::modes_quick() {
            for list in [d, sq(10, 10), sq(12, 12), sq(8, 18), ListMask::of(&[gen::idx(10, 10), gen::idx(14, 14)])] {
                for fnc1 in [false, true] {
                    hdr_cfgs.push(Cfg { modes, list, macros: true, fnc1, eci: Some(e) });
                }
            }
        }
    }
    parts.push(Part { name: "ECI x FNC1 x mode sets x small lists", family: Family::Over { alpha: SIGMA10.to_vec(), min: 0, max: 3 }, cfgs: hdr_cfgs.clone() });
    parts.push(Part { name: "ECI x FNC1 x mode sets x small lists, macro shapes", family: gen::es_f(1), cfgs: hdr_cfgs });
    gen::sweep(ctx, &parts, |_pi, input, cfg, w| {
        w.sample(|| cfg.to_json(input));
        w.check(common::case_size(input, cfg), || cfg.to_json(input), |st| eval(cfg, input, st));
    });
    let mut cov = json!({
        "evaluations": ctx.evaluations(),
        "distinct_nontrivial": ctx.counter("nontrivial"),
        "rule": format!("each case calls DataMatrixBuilder::encode (or encode_eci), data::encode_data, data::encodation_plan and (for UTF-8 inputs) encode_str \
inside catch_unwind with a watchdog; all cases distinct; non-trivial = ASCII disabled, non-default list, FNC1 or ECI. Build profile of this pass: {}. Sweep: {}",
            if cfg!(debug_assertions) { "release + debug-assertions + overflow-checks" } else { "plain release" }, gen::describe_parts(&parts)),
        "exhaustive": true,
    });
    let mut code_child = 0;
    if !is_child() {
        let (ev, code) = run_plain_child(ctx);
        cov["plain_profile_pass"] = json!({"evaluations": ev["coverage"]["evaluations"], "violations": ev["violations"], "wall_s": ev["wall_s"]});
        code_child = code;
    }
    let code = ctx.finish("exploration", cov, vec!["both build profiles run the same sweep; a hang is a case exceeding the watchdog budget".into()]);
    code.max(code_child)
}

pub fn replay(case: &Value) -> Result<(), String> {
    let (cfg, input) = Cfg::from_json(case);
    eval(&cfg, &input, &mut Stats::default())
}
