//! C19 — planning work grows at most linearly with the input length (hook counters).

use datamatrix::data::encodation_plan;
use datamatrix::verif_hooks::{plan_stats, total_plan_work};
use serde_json::{json, Value};

use super::common;
use crate::bridge::{self, Cfg, ListMask, ALL_MODES};
use crate::explore::{guarded, Ctx, Stats, Tier};
use crate::gen::{self, Family, Part, SIGMA10};

pub const MAX_LIVE: usize = 36;
pub fn step_bound(n: usize) -> u64 {
    216 * (n as u64 + 1) + 6
}

/// An encode call may plan a small fixed number of times (the tree at hand plans once).
pub const ENCODE_RUNS: u64 = 3;
/// ... and its planner work may be that of a few planning passes over the same input.
pub const ENCODE_PASSES: u64 = 6;

pub fn eval(cfg: &Cfg, input: &[u8], st: &mut Stats) -> Result<(), String> {
    let list = cfg.list.to_list();
    let modes = bridge::modes(cfg.modes);
    let r = guarded(|| encodation_plan(input, &list, modes)).map_err(|p| format!("encodation_plan: {}", p))?;
    let s = plan_stats();
    let n = input.len();
    if s.max_live > MAX_LIVE {
        return Err(format!("{} live plans after pruning (bound {})", s.max_live, MAX_LIVE));
    }
    if s.steps > step_bound(n) {
        return Err(format!("{} plan steps for {} bytes (bound {})", s.steps, n, step_bound(n)));
    }
    if s.iterations > n + 1 {
        return Err(format!("{} pruning rounds for {} bytes", s.iterations, n));
    }
    st.max("live_plans", s.max_live as u64);
    if n > 0 {
        st.max("steps_per_char_x100", s.steps * 100 / n as u64);
    }
    st.add("plan_steps", s.steps);
    if r.is_some() && s.max_live > 6 {
        st.count("nontrivial");
    }
    // the whole encode call: planner work of all planner runs it makes (cumulative counters);
    // inputs shorter than 12 bytes cannot hold enough segments for repeated planning to matter
    if n < 12 {
        return Ok(());
    }
    let (runs0, steps0) = total_plan_work();
    let _ = guarded(|| cfg.encode(input)).map_err(|p| format!("encode: {}", p))?;
    let (runs1, steps1) = total_plan_work();
    let (runs, steps) = (runs1 - runs0, steps1 - steps0);
    if steps > ENCODE_RUNS * step_bound(n) {
        return Err(format!("encoding {} bytes took {} plan steps in {} planner runs (bound {} x {})", n, steps, runs, ENCODE_RUNS, step_bound(n)));
    }
    // ... and relative to one planning pass over the same input: the absolute bound assumes 36 live
    // plans all the time, real passes need a tenth of it, so an encoder that plans the rest of the
    // input again after every segment would stay below it for inputs of a few hundred bytes
    if steps > ENCODE_PASSES * s.steps + ENCODE_PASSES * step_bound(0) {
        return Err(format!("encoding {} bytes took {} plan steps in {} planner runs, one planning pass over the same input takes {} (more than {} passes)", n, steps, runs, s.steps, ENCODE_PASSES));
    }
    st.max("planner_runs_per_encode", runs);
    if s.steps > 0 {
        st.max("encode_steps_per_plan_steps_x100", steps * 100 / s.steps);
    }
    Ok(())
}

pub fn run(ctx: &Ctx) -> i32 {
    let d = ListMask::default_list();
    let a = ListMask::all();
    let s144 = ListMask::single(gen::idx(144, 144));
    let mq = gen::modes_quick();
    // every periodic string with period <= 4 over sigma10
    let mut patterns: Vec<Vec<u8>> = Vec::new();
    let fam = Family::Over { alpha: SIGMA10.to_vec(), min: 1, max: 4 };
    let mut b = Vec::new();
    for i in 0..fam.size() {
        fam.get(i, &mut b);
        patterns.push(b.clone());
    }
    let mut parts = vec![
        Part {
            name: "ES-B sigma10",
            family: Family::Over { alpha: SIGMA10.to_vec(), min: 0, max: ctx.tier.pick(5, 6) },
            cfgs: gen::cfgs(&[ALL_MODES, common::NO_ASCII], &[d, a], &[true], &[false]),
        },
        Part { name: "ES-B sigma10<=4 x all 63 mode sets", family: Family::Over { alpha: SIGMA10.to_vec(), min: 0, max: 4 }, cfgs: gen::cfgs(&gen::modes_all(), &[d, s144], &[true], &[false]) },
        Part {
            name: "runs of one class, length 1..=40 x all 63 mode sets",
            family: Family::Periodic { patterns: vec![b"a".to_vec(), b"A".to_vec(), b"1".to_vec(), b"*".to_vec(), vec![0x80], b"~".to_vec(), b"\r".to_vec(), b"aA".to_vec(), vec![b'a', 0x80], b"a1*".to_vec()], lengths: (1..=40).collect() },
            cfgs: gen::cfgs(&gen::modes_all(), &[d], &[true], &[false]),
        },
        Part {
            name: "periodic strings, period <= 4, short",
            family: Family::Periodic { patterns: patterns.clone(), lengths: vec![7, 50] },
            cfgs: {
                let mut c = gen::cfgs(&mq, &[d, a, s144], &[true], &[false]);
                c.extend(gen::cfgs(&gen::modes_all(), &[d], &[true], &[false]));
                c
            },
        },
        Part {
            name: "periodic strings, period <= 4, length 400",
            family: Family::Periodic { patterns: patterns.clone(), lengths: vec![400] },
            cfgs: gen::cfgs(&[ALL_MODES, common::NO_ASCII, 0x3f & !0x20], &[d, s144], &[true], &[false]),
        },
        Part {
            name: "ES-O short prefix run + long run of another class",
            family: {
                let units: Vec<&[u8]> = vec![b"A", b"a", b"1", b"*", b"*\r>", &[0x80], b"~", b" ", b"A1", b"ABC"];
                let mut l = Vec::new();
                for (i, u1) in units.iter().enumerate() {
                    for (j, u2) in units.iter().enumerate() {
                        if i == j {
                            continue;
                        }
                        for k1 in [1usize, 2, 3, 4, 6, 8, 12] {
                            for k2 in ctx.tier.pick(vec![60usize, 200, 600], vec![60usize, 200, 600, 2000]) {
                                let mut v: Vec<u8> = u1.iter().cycle().take(k1).cloned().collect();
                                v.extend(u2.iter().cycle().take(k2));
                                l.push(v);
                            }
                        }
                    }
                }
                Family::list(l)
            },
            cfgs: gen::cfgs(&[ALL_MODES, common::NO_ASCII, 0x0b, 0x1d], &[d], &[true], &[false]),
        },
        Part {
            name: "two-run periods (class a x i, class b x j; i, j <= 8) at length 400",
            family: {
                let units: Vec<&[u8]> = vec![b"A", b"a", b"1", b"*", &[0x80], b"~", b" "];
                let mut l = Vec::new();
                for (i, u1) in units.iter().enumerate() {
                    for (j, u2) in units.iter().enumerate() {
                        if i == j {
                            continue;
                        }
                        for k1 in 1usize..=8 {
                            for k2 in 1usize..=8 {
                                let mut p: Vec<u8> = u1.iter().cycle().take(k1).cloned().collect();
                                p.extend(u2.iter().cycle().take(k2));
                                l.push(p.iter().cycle().take(400).cloned().collect::<Vec<u8>>());
                            }
                        }
                    }
                }
                Family::list(l)
            },
            cfgs: gen::cfgs(&[ALL_MODES, common::NO_ASCII], &[d], &[true], &[false]),
        },
        Part {
            name: "ES-E fills at maximal lengths",
            family: Family::Periodic { patterns: gen::es_e_patterns(), lengths: vec![1555, 2335, 3000, 3116, 3117, 4000] },
            cfgs: gen::cfgs(&mq, &[d, a, s144], &[true], &[false]),
        },
    ];
    if ctx.tier == Tier::Thorough {
        parts.push(Part {
            name: "T: periodic strings, period <= 4, length 3100",
            family: Family::Periodic { patterns, lengths: vec![3100] },
            cfgs: gen::cfgs(&[ALL_MODES, common::NO_ASCII], &[a], &[true], &[false]),
        });
    }
    gen::sweep(ctx, &parts, |_pi, input, cfg, w| {
        w.sample(|| {
            let mut v = cfg.to_json(&input[..input.len().min(16)]);
            v["len"] = json!(input.len());
            v
        });
        w.check(common::case_size(input, cfg), || cfg.to_json(input), |st| eval(cfg, input, st));
    });
    let cov = json!({
        "evaluations": ctx.evaluations(),
        "distinct_nontrivial": ctx.counter("nontrivial"),
        "rule": format!("all cases distinct; non-trivial = more than 6 live plans at some point. Oracle: live plans <= {} and steps <= 216*(n+1)+6 per planning call, and at most {} times that, and at most {} times the steps of one planning pass over the same input (+ {}), for all planner runs of one encode call (cumulative hook counters). Sweep: {}", MAX_LIVE, ENCODE_RUNS, ENCODE_PASSES, ENCODE_PASSES * step_bound(0), gen::describe_parts(&parts)),
        "exhaustive": true,
        "max_live_plans_observed": ctx.maximum("live_plans"),
        "max_steps_per_char_x100_observed": ctx.maximum("steps_per_char_x100"),
        "max_planner_runs_per_encode_observed": ctx.maximum("planner_runs_per_encode"),
        "max_encode_steps_per_plan_steps_x100_observed": ctx.maximum("encode_steps_per_plan_steps_x100"),
    });
    ctx.finish("exploration", cov, vec![
        "hook: feature verif-hooks counts Plan::step calls and live plans inside optimize() (additive instrumentation)".into(),
        "counted work, not wall time, is bounded; a single case exceeding the watchdog budget is reported as a hang".into(),
    ])
}

pub fn replay(case: &Value) -> Result<(), String> {
    let (cfg, input) = Cfg::from_json(case);
    eval(&cfg, &input, &mut Stats::default())
}
