//! C10 — the smallest symbol that can hold the data is chosen.
//!
//! Strong oracle: breadth-first search over the states of the nondeterministic reference
//! encoder R6 (every legal segmentation x every legal end-of-data form) per candidate
//! capacity. Weak oracle: the plain-ASCII / plain-Base256 bound the property states explicitly.

use serde_json::{json, Value};
use std::collections::HashMap;

use super::common::{self, Enc};
use crate::bridge::{self, macro_split, Cfg, ListMask, ALL_MODES};
use crate::explore::{Ctx, Stats, Tier};
use crate::gen::{self, Family, Part, SIGMA10, SIGMA8};
use crate::refmodel::decoder;
use crate::refmodel::encoder::{ascii_size, feasible, materialise, witness, Search, Tier as RTier};
use crate::refmodel::symbols::SYMBOLS;

/// Iteration order of a list as the crate defines it (reference row indices).
fn list_order(l: ListMask) -> Vec<usize> {
    l.to_list().iter().map(bridge::ref_index).collect()
}

thread_local! {
    static ORDERS: std::cell::RefCell<HashMap<u64, Vec<usize>>> = std::cell::RefCell::new(HashMap::new());
}

fn with_order<T>(l: ListMask, f: impl FnOnce(&[usize]) -> T) -> T {
    ORDERS.with(|o| {
        let mut o = o.borrow_mut();
        let v = o.entry(l.0).or_insert_with(|| list_order(l));
        f(v)
    })
}

/// Body and number of header codewords the encoder must write for this input.
fn body_and_header<'a>(cfg: &Cfg, input: &'a [u8]) -> (&'a [u8], usize) {
    let mut h = cfg.header_len();
    if cfg.macros && !cfg.fnc1 {
        if let Some((_, body)) = macro_split(input) {
            return (body, h + 1);
        }
    }
    h += 0;
    (input, h)
}

/// The codewords the encoder writes before the data: FNC1, macro, ECI.
fn header_codewords(cfg: &Cfg, input: &[u8]) -> Vec<u8> {
    let mut h = Vec::new();
    if cfg.fnc1 {
        h.push(232);
    } else if cfg.macros {
        if let Some((cw, _)) = macro_split(input) {
            h.push(cw);
        }
    }
    if let Some(e) = cfg.eci {
        h.push(241);
        h.extend(crate::refmodel::decoder::write_eci(e));
    }
    h
}

/// Smallest feasible capacity among the capacities of the list, per tier.
fn min_feasible(body: &[u8], modes: u8, h: usize, order: &[usize], tier: RTier, st: &mut Search) -> Option<usize> {
    let mut caps: Vec<usize> = order.iter().map(|i| SYMBOLS[*i].data).collect();
    caps.sort_unstable();
    caps.dedup();
    // no encodation carries more than two characters per codeword
    let lower = h + body.len() / 2;
    caps.into_iter().filter(|c| *c >= lower).find(|c| feasible(body, modes, *c, h, tier, st))
}

pub fn eval(cfg: &Cfg, input: &[u8], strong: bool, st: &mut Stats) -> Result<(), String> {
    if cfg.list.is_empty() {
        return Ok(());
    }
    let enc = common::encode(cfg, input);
    let (body, h) = body_and_header(cfg, input);
    let chosen: Option<usize> = match &enc {
        Enc::Panic(_) => {
            st.count("encode_panicked_see_C11");
            return Ok(());
        }
        Enc::Refused(_) => {
            st.count("refused");
            None
        }
        Enc::Ok(dm) => {
            st.count("encoded");
            Some(bridge::ref_index(dm.size))
        }
    };
    with_order(cfg.list, |order| {
        let cap_of = |i: usize| SYMBOLS[i].data;
        let first_with_cap_at_least = |need: usize| order.iter().copied().find(|i| cap_of(*i) >= need);
        // ---- weak oracle: plain ASCII / plain Base256 of the whole message
        let mut bound: Option<usize> = None; // capacity that certainly suffices
        if cfg.modes & 1 != 0 {
            if let Some(i) = first_with_cap_at_least(h + ascii_size(body)) {
                bound = Some(cap_of(i));
            }
        }
        if cfg.modes & 0x20 != 0 && !body.is_empty() && body.len() <= 1555 {
            let l = body.len();
            let explicit = h + 1 + if l <= 249 { 1 } else { 2 } + l;
            let to_end = h + 2 + l;
            let c = order.iter().map(|i| cap_of(*i)).filter(|c| *c >= explicit || *c == to_end).min();
            if let Some(c) = c {
                bound = Some(bound.map_or(c, |b| b.min(c)));
            }
        }
        if body.is_empty() && cfg.modes & 1 == 0 {
            // nothing to encode: only pads; any symbol holding the header fits
            if let Some(i) = first_with_cap_at_least(h) {
                bound = Some(bound.map_or(cap_of(i), |b| b.min(cap_of(i))));
            }
        }
        if let Some(b) = bound {
            st.count("weak_oracle_applied");
            match chosen {
                None => return Err(format!("refused although plain ASCII/Base256 encodation fits a listed symbol of capacity {}", b)),
                Some(i) if cap_of(i) > b => {
                    return Err(format!(
                        "symbol {} (capacity {}) chosen although plain ASCII/Base256 encodation fits capacity {}",
                        bridge::size_name(i), cap_of(i), b
                    ))
                }
                _ => {}
            }
        }
        // the symbol must be the first of the list order with its capacity
        if let Some(i) = chosen {
            let first = order.iter().copied().find(|j| cap_of(*j) == cap_of(i));
            if first != Some(i) {
                return Err(format!("{} chosen but {} comes first in the list order with the same capacity", bridge::size_name(i), bridge::size_name(first.unwrap_or(i))));
            }
        }
        // ---- strong oracle
        if body.len() > if strong { 700 } else { 64 } {
            st.count("strong_oracle_skipped_long_input");
            return Ok(());
        }
        let mut search = Search::default();
        let need = min_feasible(body, cfg.modes, h, order, RTier::DeFacto, &mut search);
        st.add("automaton_states", search.states);
        st.add("automaton_transitions", search.transitions);
        st.count("strong_oracle_computed");
        let verdict = |msg: String, st: &mut Stats| -> Result<(), String> {
            if strong {
                // the claim "a legal encoding fits" must be backed by a concrete stream which the
                // reference decoder AND the crate's own decoder read back as the input
                let n = need.expect("verdict needs a feasible capacity");
                let mut s2 = Search::default();
                let stream = witness(body, cfg.modes, n, h, RTier::DeFacto, &mut s2)
                    .ok_or_else(|| "no witness".to_string())
                    .and_then(|segs| materialise(&header_codewords(cfg, input), body, &segs, n).map(|cw| (segs, cw)));
                match stream {
                    Ok((segs, cw)) => {
                        let by_ref = decoder::decode(&cw).map(|p| p.out == input).unwrap_or(false);
                        let by_crate = cfg.eci.is_some() || crate::explore::guarded(|| datamatrix::data::decode_data(&cw)).ok().and_then(|r| r.ok()).map(|o| o == input).unwrap_or(false);
                        if by_ref && by_crate {
                            st.count("witness_streams_validated");
                            Err(format!("{}; witness {:?} (decodes to the input with the reference decoder and with data::decode_data), segments {:?}", msg, cw, segs.iter().map(|g| (g.mode.name(), g.to - g.from, g.form)).collect::<Vec<_>>()))
                        } else {
                            st.count("witness_not_validated_no_verdict");
                            Ok(())
                        }
                    }
                    Err(_) => {
                        st.count("witness_not_validated_no_verdict");
                        Ok(())
                    }
                }
            } else {
                st.count("non_minimal_vs_reference_outside_verdict_space");
                if cfg.modes & 1 == 1 {
                    st.count("non_minimal_vs_reference_outside_verdict_space_with_ascii");
                    if std::env::var("C10_DEBUG").is_ok() {
                        eprintln!("NON-MINIMAL in={} modes={:06b} list={} :: {}", crate::explore::hex(input), cfg.modes, cfg.list.to_json(), msg);
                    }
                }
                Ok(())
            }
        };
        match (chosen, need) {
            (Some(i), Some(n)) => {
                if cap_of(i) > n {
                    return verdict(
                        format!("symbol {} (capacity {}) chosen, but a legal encoding fits capacity {} (reference search over all segmentations and end-of-data forms)",
                            bridge::size_name(i), cap_of(i), n),
                        st,
                    );
                }
                if cap_of(i) < n {
                    st.count("ref_incomplete");
                    if strong {
                        st.count("ref_incomplete_in_strong_space");
                    }
                    if std::env::var("C10_DEBUG").is_ok() {
                        if let Enc::Ok(dm) = &enc {
                            eprintln!("REF-INCOMPLETE strong={} in={} modes={:06b} list={} h={} crate={} ref={} stream={:?}", strong, crate::explore::hex(input), cfg.modes, cfg.list.to_json(), h, cap_of(i), n, dm.data_codewords());
                        }
                    }
                }
                if strong {
                    st.count("strong_verdicts");
                    if cap_of(i) != SYMBOLS[order[0]].data {
                        st.count("nontrivial");
                    }
                }
            }
            (None, Some(n)) => {
                return verdict(format!("refused, but a legal encoding fits a listed symbol of capacity {}", n), st);
            }
            (Some(_), None) => {
                st.count("ref_incomplete");
                if strong {
                    st.count("ref_incomplete_in_strong_space");
                }
            }
            (None, None) => {
                if strong {
                    st.count("strong_verdicts");
                    st.count("both_refuse");
                    st.count("nontrivial");
                }
            }
        }
        // statistics: what the other tiers say
        if strong && body.len() <= 8 {
            let mut s2 = Search::default();
            let strict = min_feasible(body, cfg.modes, h, order, RTier::Strict, &mut s2);
            let lenient = min_feasible(body, cfg.modes, h, order, RTier::Lenient, &mut s2);
            if strict != need {
                st.count("defacto_tier_smaller_than_strict");
            }
            if lenient != need {
                st.count("lenient_tier_smaller_than_verdict_tier");
            }
        }
        // conformance of the crate's own stream with the model's language
        if let Enc::Ok(dm) = &enc {
            match decoder::decode(dm.data_codewords()) {
                Ok(p) if p.out == input => st.count("traces_validated"),
                _ => st.count("reference_decoder_disagrees_see_C02"),
            }
        }
        Ok(())
    })
}

/// ES-G inputs.
pub fn es_g(kmax: usize) -> Family {
    let units: Vec<&[u8]> = vec![b"A", b"a", b"*A^ ", b"A>*", &[0x80], b"1", b"AB CD"];
    let mut tails: Vec<Vec<u8>> = (0..=6).map(|j| vec![b'1'; j]).collect();
    for j in 1..=3 {
        tails.push(vec![b'A'; j]);
        tails.push(vec![b'a'; j]);
        tails.push(vec![b'*'; j]);
    }
    tails.push(b"12A".to_vec());
    tails.push(b"A12".to_vec());
    tails.push(vec![0x80]);
    let mut out = Vec::new();
    for u in &units {
        for k in 1..=kmax {
            for t in &tails {
                let mut v: Vec<u8> = u.iter().cycle().take(k).cloned().collect();
                v.extend(t);
                out.push(v);
            }
        }
    }
    Family::list(out)
}

pub fn es_h_specs(tier: Tier) -> Vec<(&'static str, &'static [u8], usize)> {
    vec![
        ("ES-H {>,6,A} + digit tails", b">6A", tier.pick(8, 10)),
        ("ES-H {A,1,space,*} + digit tails", b"A1 *", tier.pick(7, 8)),
        ("ES-H {comma,6,A} + digit tails", b",6A", tier.pick(9, 10)),
        ("ES-H {comma,6} + digit tails", b",6", tier.pick(12, 14)),
        ("ES-H {a,*,A} + digit tails", b"a*A", 8),
        ("ES-H {>,6,A,a} + digit tails", b">6Aa", tier.pick(7, 8)),
    ]
}

/// ES-H: every string over `alpha` of length 0..=maxlen followed by 0..=6 digits '1'.
pub fn es_h(alpha: &[u8], maxlen: usize) -> Family {
    let fam = Family::Over { alpha: alpha.to_vec(), min: 0, max: maxlen };
    let mut prefixes = Vec::with_capacity(fam.size() as usize);
    let mut b = Vec::new();
    for i in 0..fam.size() {
        fam.get(i, &mut b);
        prefixes.push(b.clone());
    }
    Family::Tails { prefixes, alpha: vec![b'1'], max: 6 }
}

pub fn es_l(kmax: usize) -> Family {
    let units: [u8; 4] = [b'a', b'A', b'1', b'*'];
    let mut out = Vec::new();
    for a in units {
        for b in units {
            for c in units {
                if a == b || b == c {
                    continue;
                }
                for ka in 1..=kmax {
                    for kb in 1..=kmax {
                        for kc in 1..=kmax {
                            let mut v = vec![a; ka];
                            v.extend(vec![b; kb]);
                            v.extend(vec![c; kc]);
                            out.push(v);
                        }
                    }
                }
            }
        }
    }
    Family::list(out)
}

pub fn es_j(tier: Tier) -> Family {
    let mut prefixes: Vec<Vec<u8>> = Vec::new();
    for l in tier.pick(vec![250usize], vec![248usize, 249, 250, 251, 499, 500]) {
        prefixes.push(vec![0x80; l]);
    }
    for l in tier.pick(vec![250usize], vec![249usize, 250, 375]) {
        prefixes.push(vec![b'A'; l]);
    }
    if tier == Tier::Thorough {
        prefixes.push(vec![b'a'; 250]);
    }
    let units: Vec<&[u8]> = tier.pick(vec![&b"A"[..], b"1"], vec![&b"A"[..], b"a", b"1", b"*A^ "]);
    let mut out = Vec::new();
    for p in &prefixes {
        for u in &units {
            for j in 0..=48 {
                let mut v = p.clone();
                v.extend(u.iter().cycle().take(j));
                out.push(v);
            }
        }
    }
    Family::list(out)
}

/// ES-S: a run of L = 248..253 high bytes (the two-codeword Base256 length starts at 250), 0..2
/// ASCII characters the field could absorb, and a digit tail of every length that brings the total
/// to the capacities 280 / 368 and their neighbours: the split "Base256 field of 249 + rest" against
/// "field of 250..255 with a second length codeword".
pub fn es_s(tier: Tier) -> Family {
    let mut out = Vec::new();
    let ls: Vec<usize> = tier.pick((248..=253).collect(), (246..=257).collect());
    for l in ls {
        for e in 0..=2usize {
            for ch in [b'a', b'A'] {
                if e == 0 && ch == b'A' {
                    continue;
                }
                for cap in tier.pick(vec![280usize], vec![280usize, 368]) {
                    // codewords without the digits: latch + 1..2 length + l + e
                    let m0 = cap.saturating_sub(2 + l + e);
                    for m in m0.saturating_sub(3)..=m0 + 1 {
                        for odd in [0usize, 1] {
                            let mut v = vec![0x80u8; l];
                            for q in 0..l {
                                v[q] = 0x80 | (q as u8).wrapping_mul(29);
                            }
                            v.extend(std::iter::repeat(ch).take(e));
                            v.extend(std::iter::repeat(b'7').take(2 * m + odd));
                            out.push(v);
                        }
                    }
                }
            }
        }
    }
    Family::list(out)
}

struct SPart {
    part: Part,
    strong: bool,
}

fn parts(tier: Tier) -> Vec<SPart> {
    let d = ListMask::default_list();
    let a = ListMask::all();
    let both = [false, true];
    let on = [true];
    let off = [false];
    let sq = |r, c| ListMask::single(gen::idx(r, c));
    let lq = gen::lists_quick();
    let ma = gen::modes_with_ascii();
    let mut v = Vec::new();
    // witnesses of the recorded findings (exact cases of known_findings.jsonl), strong oracle
    v.push(SPart {
        part: Part { name: "witness AAAAAAA<CR>a", family: Family::list(vec![b"AAAAAAA\ra".to_vec()]), cfgs: gen::cfgs(&[ALL_MODES], &[d], &on, &off) },
        strong: true,
    });
    v.push(SPart {
        part: Part { name: "witness 0x80 with {C40}", family: Family::list(vec![vec![0x80]]), cfgs: gen::cfgs(&[0x02], &[d, sq(12, 12)], &on, &off) },
        strong: true,
    });
    // strong verdict space
    let named: Vec<Vec<u8>> = gen::named_inputs().into_iter().filter(|s| s.len() <= 64 && s != b"AAAAAAA\ra" && s != b"AAAAAAAaa").collect();
    v.push(SPart { part: Part { name: "named inputs", family: Family::list(named), cfgs: gen::cfgs(&[ALL_MODES], &[d, a], &both, &both) }, strong: true });
    v.push(SPart {
        part: Part { name: "ES-A full<=2", family: Family::Full { min: 0, max: 2 }, cfgs: gen::cfgs(&[ALL_MODES, 1, 0x21, 0x03], &[d, a, sq(10, 10), sq(12, 12)], &on, &off) },
        strong: true,
    });
    let mut c4 = gen::cfgs(&ma, &lq, &on, &off);
    c4.extend(gen::cfgs(&[ALL_MODES], &[d, sq(12, 12), sq(14, 14)], &on, &on));
    v.push(SPart { part: Part { name: "ES-B sigma10<=4 x 32 mode sets with ASCII x lists", family: Family::Over { alpha: SIGMA10.to_vec(), min: 0, max: 4 }, cfgs: c4 }, strong: true });
    let mut c5 = gen::cfgs(&[ALL_MODES], &[d, a, sq(14, 14), sq(8, 32), sq(16, 16), ListMask::of(&[gen::idx(10, 10), gen::idx(14, 14)])], &on, &off);
    c5.extend(gen::cfgs(&ma[..ma.len() - 1], &[d], &on, &off));
    v.push(SPart { part: Part { name: "ES-B sigma10=5", family: Family::Over { alpha: SIGMA10.to_vec(), min: 5, max: 5 }, cfgs: c5 }, strong: true });
    v.push(SPart {
        part: Part { name: "ES-B2 sigma5 6..8", family: Family::Over { alpha: vec![b'A', b'a', b'1', b'*', 0x80], min: 6, max: 8 }, cfgs: gen::cfgs(&[ALL_MODES], &[d], &on, &off) },
        strong: true,
    });
    v.push(SPart {
        part: Part { name: "ES-F macro shapes", family: gen::es_f(2), cfgs: gen::cfgs(&[ALL_MODES, 1], &[d], &both, &both) },
        strong: true,
    });
    v.push(SPart {
        part: Part { name: "ES-F macro shapes x small single lists", family: gen::es_f(2), cfgs: gen::cfgs(&[ALL_MODES], &[sq(10, 10), sq(12, 12), sq(8, 18), sq(14, 14), sq(16, 16)], &both, &[false]) },
        strong: true,
    });
    v.push(SPart {
        part: Part {
            name: "W: macro envelopes with bodies at the capacity of the largest symbol",
            family: {
                let mut l = Vec::new();
                for head in [gen::MACRO05, gen::MACRO06] {
                    for n in 3100..=3118usize {
                        let mut x = head.to_vec();
                        x.extend(std::iter::repeat(b'1').take(n));
                        x.extend_from_slice(gen::MACRO_TRAIL);
                        l.push(x);
                    }
                    for n in 14..=24usize {
                        let mut x = head.to_vec();
                        x.extend(std::iter::repeat(b'1').take(n));
                        x.extend_from_slice(gen::MACRO_TRAIL);
                        l.push(x);
                    }
                }
                Family::list(l)
            },
            cfgs: gen::cfgs(&[ALL_MODES], &[d, sq(16, 16), sq(14, 14)], &both, &off),
        },
        strong: false,
    });
    if tier == Tier::Thorough {
        v.push(SPart {
            part: Part { name: "T: ES-B sigma10 6..7", family: Family::Over { alpha: SIGMA10.to_vec(), min: 6, max: 7 }, cfgs: gen::cfgs(&[ALL_MODES], &[d, a, sq(16, 16), sq(12, 26), sq(18, 18)], &on, &off) },
            strong: true,
        });
        v.push(SPart {
            part: Part { name: "T: ES-B sigma8=8", family: Family::Over { alpha: SIGMA8.to_vec(), min: 8, max: 8 }, cfgs: gen::cfgs(&[ALL_MODES], &[d, a], &on, &off) },
            strong: true,
        });
        v.push(SPart {
            part: Part { name: "T: ES-B sigma10 5..6 x 32 mode sets", family: Family::Over { alpha: SIGMA10.to_vec(), min: 5, max: 6 }, cfgs: gen::cfgs(&ma, &[d, sq(14, 14), sq(16, 16)], &on, &off) },
            strong: true,
        });
        v.push(SPart {
            part: Part { name: "T: ES-B sigma10<=4 x thorough lists", family: Family::Over { alpha: SIGMA10.to_vec(), min: 0, max: 4 }, cfgs: gen::cfgs(&[ALL_MODES, 1, 0x03, 0x21, 0x11, 0x09, 0x05], &gen::lists_thorough(), &on, &off) },
            strong: true,
        });
    }
    // ES-G: a run of k characters native to one mode followed by a short tail of digits / letters:
    // stresses the end-of-data cost models of the planner at every residue of every small capacity
    v.push(SPart { part: Part { name: "ES-G mode runs + digit/letter tails", family: es_g(32), cfgs: gen::cfgs(&[ALL_MODES], &[d, a], &on, &off) }, strong: std::env::var("C10_ESG_WEAK").is_err() });
    if let Ok(spec) = std::env::var("C10_EXPERIMENT") {
        // experiment: all strings over the given alphabet of the given length + digit tails
        let mut it = spec.split(':');
        let alpha: Vec<u8> = it.next().unwrap().bytes().collect();
        let lo: usize = it.next().unwrap().parse().unwrap();
        let hi: usize = it.next().map(|x| x.parse().unwrap()).unwrap_or(lo);
        let fam = Family::Over { alpha, min: lo, max: hi };
        let mut out = Vec::new();
        let mut b = Vec::new();
        for i in 0..fam.size() {
            fam.get(i, &mut b);
            for t in 0..=6 {
                let mut x = b.clone();
                x.extend(std::iter::repeat(b'1').take(t));
                out.push(x);
            }
        }
        v.clear();
        v.push(SPart { part: Part { name: "experiment", family: Family::list(out), cfgs: gen::cfgs(&[ALL_MODES], &[d], &on, &off) }, strong: true });
        return v;
    }
    // ES-H: all strings over small alphabets that mix characters native to different modes,
    // followed by a tail of 0..=6 digits. Inputs of up to 20 bytes; the optimiser is not exact on
    // some of them (phase-blind pruning): those cases are listed in known_sets/ and matched exactly.
    for (name, alpha, maxlen) in es_h_specs(tier) {
        v.push(SPart { part: Part { name, family: es_h(alpha, maxlen), cfgs: gen::cfgs(&[ALL_MODES], &[d], &on, &off) }, strong: true });
    }
    // ES-J: long inputs: a Base256 / C40 / Text run whose length sits at a length-field or symbol
    // boundary, followed by a tail of 0..=48 characters of one class (walks the end of the data
    // across the capacity of the symbol in steps of 2/3, 1/2, 3/4 and 1 codeword)
    v.push(SPart { part: Part { name: "ES-J long runs + tails", family: es_j(tier), cfgs: gen::cfgs(&[ALL_MODES], &[d], &on, &off) }, strong: true });
    // ES-L: three runs of base-set characters of different classes (lower case, upper case, digits,
    // EDIFACT punctuation) with every combination of run lengths 1..=13: look-ahead rules of the
    // planner that depend on the length of the coming run (e.g. "7 digits ahead") live here
    v.push(SPart { part: Part { name: "ES-S Base256 field around 250 bytes + absorbable characters + digit tail at a capacity", family: es_s(tier), cfgs: gen::cfgs(&[ALL_MODES], &[d], &on, &off) }, strong: true });
    v.push(SPart { part: Part { name: "ES-L three runs, lengths 1..13", family: es_l(13), cfgs: gen::cfgs(&[ALL_MODES], &[d], &on, &off) }, strong: true });
    // ES-K: every symbol as a single-symbol list at its capacity boundaries (strong for symbols of
    // up to 204 codewords, weak oracle beyond)
    for si in 0..48 {
        let c = SYMBOLS[si].data;
        if c > 204 && tier == Tier::Quick && !matches!(c, 1558 | 1304 | 280) {
            continue;
        }
        v.push(SPart { part: Part { name: "ES-K capacity boundaries of a single symbol", family: gen::es_k(c), cfgs: gen::cfgs(&[ALL_MODES], &[ListMask::single(si)], &on, &off) }, strong: c <= tier.pick(72, 204) });
    }
    // weak verdict space (strong oracle computed and reported, but it does not decide)
    let mq = gen::modes_quick();
    v.push(SPart { part: Part { name: "W: ES-B sigma10<=4 x mode sets without ASCII", family: Family::Over { alpha: SIGMA10.to_vec(), min: 0, max: 4 }, cfgs: gen::cfgs(&gen::modes_all(), &[d, sq(12, 12)], &on, &off) }, strong: false });
    v.push(SPart { part: Part { name: "W: ES-I multi-run inputs", family: gen::es_i(tier.pick(14, 24), tier.pick(5, 7)), cfgs: gen::cfgs(&[ALL_MODES], &[d, a], &on, &off) }, strong: false });
    v.push(SPart { part: Part { name: "W: ES-C contexts", family: gen::es_c(false), cfgs: gen::cfgs(&mq, &[d, a], &on, &off) }, strong: false });
    v.push(SPart { part: Part { name: "W: ES-D shifted tails", family: gen::es_d(tier.pick(24, 64), &SIGMA8, tier.pick(2, 3)), cfgs: gen::cfgs(&mq, &[d, a], &on, &off) }, strong: false });
    let mut ce = gen::cfgs(&[ALL_MODES, 1, 0x20, 0x21], &[d, a], &on, &off);
    ce.extend(gen::cfgs(&[common::NO_ASCII], &[d], &on, &off));
    v.push(SPart { part: Part { name: "W: ES-E length sweep", family: gen::es_e(tier == Tier::Thorough), cfgs: ce }, strong: false });
    v.push(SPart { part: Part { name: "W: ES-R mixed inputs whose single Base256 field fills a capacity", family: gen::es_r(), cfgs: gen::cfgs(&[ALL_MODES, 0x21, 0x20], &[d, a], &on, &off) }, strong: false });
    v.push(SPart { part: Part { name: "W: ES-Q Base256 run ending at a symbol capacity + tail", family: gen::es_q(), cfgs: gen::cfgs(&[ALL_MODES, 0x21], &[d, a], &on, &off) }, strong: false });
    v.push(SPart { part: Part { name: "W: named inputs x configurations", family: Family::list(gen::named_inputs()), cfgs: gen::cfgs(&mq, &lq, &both, &both) }, strong: false });
    v
}

pub fn run(ctx: &Ctx) -> i32 {
    let sp = parts(ctx.tier);
    let strong: Vec<bool> = sp.iter().map(|s| s.strong).collect();
    let parts: Vec<Part> = sp.into_iter().map(|s| s.part).collect();
    gen::sweep(ctx, &parts, |pi, input, cfg, w| {
        w.sample(|| {
            let mut v = cfg.to_json(&input[..input.len().min(24)]);
            v["len"] = json!(input.len());
            v
        });
        let s = strong[pi];
        w.check(common::case_size(input, cfg), || case_json(cfg, input, s), |st| eval(cfg, input, s, st));
    });
    let cov = json!({
        "states": ctx.counter("automaton_states") + ctx.evaluations(),
        "transitions": ctx.counter("automaton_transitions"),
        "traces_validated_against_impl": ctx.counter("traces_validated"),
        "evaluations": ctx.evaluations(),
        "distinct_nontrivial": ctx.counter("nontrivial"),
        "rule": format!("states = reachable states (chars consumed, codewords written) of the reference encoder automaton R6 visited by the feasibility searches + (input, configuration) nodes; \
transitions = automaton transitions expanded; traces validated = streams of the crate accepted by the reference decoder with the right content; non-trivial = strong verdict where the minimal symbol \
is not the smallest of the list (or both refuse). Parts marked W are decided by the weak oracle only (plain ASCII / plain Base256 bound; first symbol of its capacity in list order). Sweep: {}", gen::describe_parts(&parts)),
        "exhaustive": true,
        "strong_verdicts": ctx.counter("strong_verdicts"),
        "ref_incomplete": ctx.counter("ref_incomplete"),
        "non_minimal_vs_reference_outside_verdict_space": ctx.counter("non_minimal_vs_reference_outside_verdict_space"),
    });
    ctx.finish("model_checking", cov, vec![
        "verdict tier of R6: forms spelled out by ISO/IEC 16022 plus the forms this crate itself emits (DESIGN.md §4 R6)".into(),
        "the strong oracle decides only in the space where the optimiser is exact on the current tree (inputs <= 5..8 bytes, mode sets with ASCII); elsewhere the weak oracle decides (DESIGN.md §6 C10, §7.3)".into(),
    ])
}

fn case_json(cfg: &Cfg, input: &[u8], strong: bool) -> Value {
    let mut v = cfg.to_json(input);
    v["strong"] = json!(strong);
    v
}

pub fn replay(case: &Value) -> Result<(), String> {
    let (cfg, input) = Cfg::from_json(case);
    eval(&cfg, &input, case["strong"].as_bool().unwrap_or(true), &mut Stats::default())
}
