//! C18 — planning agrees with encoding (plan shape, latch sequence, predicted symbol; hook).

use datamatrix::data::{encodation_plan, encode_data};
use datamatrix::verif_hooks::plan_stats;
use serde_json::{json, Value};

use super::common::{self, Enc, Flavor};
use crate::bridge::{self, macro_split, mode_bit_of, Cfg};
use crate::explore::{guarded, Ctx, Stats};
use crate::gen;
use crate::refmodel::decoder::{self, Mode};
use crate::refmodel::symbols::SYMBOLS;

/// capacity of the first symbol of the list (in the crate's iteration order) that holds `need`
fn predicted_capacity(cfg: &Cfg, need: usize) -> Option<usize> {
    cfg.list.to_list().iter().map(|s| SYMBOLS[bridge::ref_index(s)].data).find(|c| *c >= need)
}

pub fn eval(cfg: &Cfg, input: &[u8], st: &mut Stats) -> Result<(), String> {
    // Part 1: through the builder (headers included), hook only
    let enc = common::encode(cfg, input);
    let stats = plan_stats();
    if let Enc::Ok(dm) = &enc {
        st.count("encoded");
        let mut header = cfg.header_len();
        if cfg.macros && !cfg.fnc1 && macro_split(input).is_some() {
            header += 1;
        }
        let cost = stats.chosen_cost.ok_or("encoding succeeded but the planner selected no plan")? as usize;
        let actual = SYMBOLS[bridge::ref_index(dm.size)].data;
        match predicted_capacity(cfg, header + cost) {
            Some(pred) => {
                if actual > pred {
                    return Err(format!(
                        "planner predicted {} codewords ({} header) -> capacity {}, encoder used capacity {}",
                        header + cost, header, pred, actual
                    ));
                }
                if actual < pred {
                    st.count("encoder_smaller_than_predicted");
                }
            }
            None => st.count("predicted_cost_exceeds_list_but_encoded"),
        }
    }
    // Part 2: the planning API sees the same bytes only without headers and macro stripping
    if cfg.fnc1 || cfg.eci.is_some() || (cfg.macros && macro_split(input).is_some()) {
        return Ok(());
    }
    let list = cfg.list.to_list();
    let modes = bridge::modes(cfg.modes);
    let enc = guarded(|| encode_data(input, &list, None, modes, cfg.macros));
    let (cw, _size) = match enc {
        Ok(Ok(x)) => x,
        other => {
            let e: String = match other {
                Ok(Err(e)) => format!("{:?}", e),
                Err(p) => format!("panic: {}", p),
                Ok(Ok(_)) => unreachable!(),
            };
            // the encoder refuses (or fails): then the planner must not have predicted a listed symbol for
            // a plan of its own ("the encoder never needs a larger symbol than predicted")
            st.count("not_encodable");
            let plan = guarded(|| encodation_plan(input, &list, modes)).map_err(|p| format!("encodation_plan: {}", p))?;
            if let Some(plan) = plan {
                if let Some(cost) = plan_stats().chosen_cost {
                    if let Some(pred) = predicted_capacity(cfg, cost as usize) {
                        return Err(format!("planner returns {:?} and predicts {} codewords -> capacity {}, but the encoder does not encode the input ({})", &plan[..plan.len().min(6)], cost, pred, e));
                    }
                }
            }
            return Ok(());
        }
    };
    let plan = guarded(|| encodation_plan(input, &list, modes)).map_err(|p| format!("encodation_plan: {}", p))?;
    let plan = plan.ok_or("input is encodable but encodation_plan returns None")?;
    st.count("plans_checked");
    let n = input.len();
    let mut prev = n;
    for (left, m) in &plan {
        if cfg.modes & mode_bit_of(*m) == 0 {
            return Err(format!("plan {:?} names the disabled mode {:?}", plan, m));
        }
        if *left > prev {
            return Err(format!("plan {:?}: positions increase", plan));
        }
        prev = *left;
    }
    match plan.last() {
        Some((0, _)) => {}
        _ => return Err(format!("plan {:?} does not end at position 0", plan)),
    }
    // non-ASCII modes with at least one character, in order
    let mut planned: Vec<u8> = Vec::new();
    for k in 0..plan.len() {
        let (left, m) = plan[k];
        let next = if k + 1 < plan.len() { plan[k + 1].0 } else { 0 };
        let bit = mode_bit_of(m);
        if left > next && bit != 1 {
            planned.push(bit);
        }
    }
    let p = match decoder::decode(&cw) {
        Ok(p) => p,
        Err(_) => {
            st.count("reference_decoder_rejects_see_C02");
            return Ok(());
        }
    };
    let latched: Vec<u8> = p.latches.iter().map(|(_, m): &(usize, Mode)| m.bit()).collect();
    if latched != planned {
        return Err(format!("plan {:?} assigns characters to modes {:?} but the stream {:?} latches {:?}", plan, planned, cw, latched));
    }
    st.add("decoder_transitions", cw.len() as u64);
    st.count("traces_validated");
    if !planned.is_empty() {
        st.count("nontrivial");
        st.distinct("latch_sequences", latched.iter().fold(7u64, |h, b| crate::explore::hash_mix(h, *b as u64)));
    }
    Ok(())
}

pub fn run(ctx: &Ctx) -> i32 {
    let parts = common::std_sweep(ctx.tier, Flavor::RoundTrip);
    gen::sweep(ctx, &parts, |_pi, input, cfg, w| {
        w.sample(|| cfg.to_json(input));
        w.check(common::case_size(input, cfg), || cfg.to_json(input), |st| eval(cfg, input, st));
    });
    let cov = json!({
        "states": ctx.evaluations(),
        "transitions": ctx.counter("decoder_transitions"),
        "traces_validated_against_impl": ctx.counter("traces_validated"),
        "evaluations": ctx.evaluations(),
        "distinct_nontrivial": ctx.counter("nontrivial"),
        "rule": format!("states = (input, configuration) nodes (all distinct); transitions = codewords of encoder output consumed by the reference decoder whose \
latch trace is compared with the plan; non-trivial = plan with at least one non-ASCII run. Predicted symbol via hook verif_hooks::plan_stats().chosen_cost. Sweep: {}", gen::describe_parts(&parts)),
        "exhaustive": true,
    });
    ctx.finish("model_checking", cov, vec!["hook: feature verif-hooks reports the cost of the plan selected by optimize() (additive instrumentation)".into()])
}

pub fn replay(case: &Value) -> Result<(), String> {
    let (cfg, input) = Cfg::from_json(case);
    eval(&cfg, &input, &mut Stats::default())
}
