//! C16 — Macro 05/06 compaction and GS1 start are exact and lossless.

use datamatrix::data::decode_data;
use serde_json::{json, Value};

use super::common::{self, Enc};
use crate::bridge::{macro_split, Cfg, ListMask, ALL_MODES};
use crate::explore::{Ctx, Stats};
use crate::gen::{self, Family, Part};
use crate::refmodel::decoder;

pub fn eval(cfg: &Cfg, input: &[u8], st: &mut Stats) -> Result<(), String> {
    let dm = match common::encode(cfg, input) {
        Enc::Panic(p) => return Err(format!("encode: {}", p)),
        Enc::Refused(_) => {
            st.count("refused");
            // a message with a complete envelope whose compacted form obviously fits must be compacted
            if let (true, Some((_, body))) = (cfg.macros && !cfg.fnc1 && cfg.modes & 1 == 1 && cfg.eci.is_none(), macro_split(input)) {
                let need = 1 + crate::refmodel::encoder::ascii_size(body);
                if need <= cfg.list.max_capacity() {
                    return Err(format!("refused although macro codeword + body in plain ASCII need only {} codewords (largest listed symbol holds {})", need, cfg.list.max_capacity()));
                }
            }
            return Ok(());
        }
        Enc::Ok(dm) => dm,
    };
    st.count("encoded");
    let data = dm.data_codewords();
    let first = data.first().copied().unwrap_or(0);
    let envelope = macro_split(input);
    let expect_macro = cfg.macros && !cfg.fnc1 && envelope.is_some();
    let has_macro = first == 236 || first == 237;
    if has_macro != expect_macro {
        return Err(format!("first codeword {} but macro compaction {}expected; stream {:?}", first, if expect_macro { "" } else { "not " }, data));
    }
    let p = decoder::decode(data).map_err(|e| format!("reference decoder rejects {:?}: {}", data, e))?;
    if let (true, Some((cw, body))) = (expect_macro, envelope) {
        if first != cw {
            return Err(format!("macro codeword {} for a {} envelope", first, if cw == 236 { "05" } else { "06" }));
        }
        if p.body != body {
            return Err(format!("encoded body {} differs from the input body", crate::explore::hex(&p.body)));
        }
        st.count("macro_compacted");
        st.count("nontrivial");
    } else if envelope.is_some() || input.starts_with(b"[)>") || input.ends_with(b"\x1e\x04") {
        st.count("envelope_lookalike_encoded_verbatim");
        st.count("nontrivial");
    }
    if cfg.fnc1 {
        if first != 232 {
            return Err(format!("FNC1 start requested but first codeword is {}", first));
        }
        if data.len() > 1 && (data[1] == 236 || data[1] == 237) {
            return Err("macro codeword after FNC1".into());
        }
    } else if first == 232 {
        return Err("first codeword is FNC1 although no FNC1 start was requested".into());
    }
    if p.out != input {
        return Err(format!("reference decoder reads {}", crate::explore::hex(&p.out)));
    }
    let dec = decode_data(data);
    if dec.as_deref() != Ok(input) {
        return Err(format!("decode_data = {:?}", dec.map(|v| crate::explore::hex(&v))));
    }
    Ok(())
}

pub fn run(ctx: &Ctx) -> i32 {
    let d = ListMask::default_list();
    let both = [false, true];
    let parts = vec![
        Part {
            name: "ES-F macro shapes",
            family: gen::es_f(ctx.tier.pick(3, 5)),
            cfgs: gen::cfgs(&ctx.tier.pick(vec![ALL_MODES, 1, common::NO_ASCII, 0x21, 0x03], gen::modes_quick()), &[d], &both, &both),
        },
        Part {
            name: "ES-F macro shapes (short bodies) x mode sets x lists",
            family: gen::es_f(1),
            cfgs: gen::cfgs(&gen::modes_quick(), &[d, ListMask::all(), ListMask::single(gen::idx(10, 10)), ListMask::single(gen::idx(12, 12)), ListMask::single(gen::idx(8, 18)), ListMask::single(gen::idx(14, 14)), ListMask::single(gen::idx(16, 16))], &both, &both),
        },
        Part {
            name: "macro envelope around sigma10 bodies",
            family: {
                let fam = Family::Over { alpha: gen::SIGMA10.to_vec(), min: 0, max: ctx.tier.pick(4, 5) };
                let mut v = Vec::new();
                let mut b = Vec::new();
                for i in 0..fam.size() {
                    fam.get(i, &mut b);
                    for h in [gen::MACRO05, gen::MACRO06] {
                        let mut x = h.to_vec();
                        x.extend(&b);
                        x.extend(gen::MACRO_TRAIL);
                        v.push(x);
                    }
                }
                Family::list(v)
            },
            cfgs: gen::cfgs(&[ALL_MODES, common::NO_ASCII], &[d, ListMask::all()], &both, &[false]),
        },
        Part {
            name: "ES-F2 macro token sequences",
            family: gen::es_f_tokens(ctx.tier.pick(4, 5)),
            cfgs: gen::cfgs(&[ALL_MODES, 1, common::NO_ASCII], &[d, ListMask::single(gen::idx(16, 16))], &both, &both),
        },
        Part {
            name: "envelope look-alikes with longer bodies",
            family: {
                let mut v = Vec::new();
                for pat in gen::es_e_patterns().into_iter().chain([b"@".to_vec(), b"*\r>".to_vec()]) {
                    for n in 0..=48usize {
                        let body: Vec<u8> = pat.iter().cycle().take(n).cloned().collect();
                        // trailer only, header only, unknown format header with trailer, header in the middle
                        let mut a = body.clone();
                        a.extend_from_slice(gen::MACRO_TRAIL);
                        v.push(a);
                        let mut b = gen::MACRO05.to_vec();
                        b.extend(&body);
                        v.push(b);
                        let mut c = b"[)>\x1e07\x1d".to_vec();
                        c.extend(&body);
                        c.extend_from_slice(gen::MACRO_TRAIL);
                        v.push(c);
                        let mut d2 = body.clone();
                        d2.extend_from_slice(gen::MACRO06);
                        d2.extend(&body);
                        d2.extend_from_slice(gen::MACRO_TRAIL);
                        v.push(d2);
                    }
                }
                Family::list(v)
            },
            cfgs: gen::cfgs(&[ALL_MODES, common::NO_ASCII], &[d, ListMask::all()], &both, &both),
        },
        Part {
            name: "long macro bodies",
            family: {
                let mut v = Vec::new();
                for pat in gen::es_e_patterns() {
                    for n in (0..200).chain([248, 249, 250, 251, 777, 1555, 3000, 3100, 3105, 3106, 3107, 3108, 3109, 3110, 3111, 3112, 3113, 3114, 3115, 3116]) {
                        let mut x = gen::MACRO05.to_vec();
                        x.extend(pat.iter().cycle().take(n));
                        x.extend(gen::MACRO_TRAIL);
                        v.push(x);
                    }
                }
                Family::list(v)
            },
            cfgs: gen::cfgs(&[ALL_MODES], &[d], &both, &both),
        },
    ];
    gen::sweep(ctx, &parts, |_pi, input, cfg, w| {
        w.sample(|| cfg.to_json(input));
        w.check(common::case_size(input, cfg), || cfg.to_json(input), |st| eval(cfg, input, st));
    });
    // the macro and FNC1 options hold whatever the order in which the builder's setters are called:
    // all 24 orders give the codewords of the order judged above (list, modes, macros, FNC1)
    {
        let lists: Vec<Vec<usize>> = vec![ListMask::default_list().indices(), vec![gen::idx(44, 44)], vec![gen::idx(12, 26), gen::idx(20, 20)]];
        let mut datas: Vec<Vec<u8>> = Vec::new();
        for head in [gen::MACRO05, gen::MACRO06] {
            for body in [&b""[..], b"ABC123", b"0104012345678901", &[0xE9, b'a']] {
                let mut m = head.to_vec();
                m.extend_from_slice(body);
                m.extend_from_slice(gen::MACRO_TRAIL);
                datas.push(m);
            }
        }
        datas.push(b"[)>\x1e05\x1dABC".to_vec());
        datas.push(b"0104012345678901".to_vec());
        ctx.par(lists.len() as u64, |c, w| {
            let o = &lists[c as usize];
            w.label(|| format!("builder setter orders, list {}", c));
            for mb in [ALL_MODES, common::NO_ASCII] {
                for ma in [true, false] {
                    for f in [false, true] {
                        for dta in &datas {
                            let desc = || json!({"kind": "builder", "order": o.iter().map(|i| crate::bridge::size_name(*i)).collect::<Vec<_>>(), "modes": mb, "macros": ma, "fnc1": f, "data": crate::explore::hex(dta)});
                            w.check(o.len() as u64, desc, |st| super::c12::eval_builder_order(o, mb, ma, f, dta, st));
                        }
                    }
                }
            }
        });
    }
    let cov = json!({
        "evaluations": ctx.evaluations(),
        "distinct_nontrivial": ctx.counter("nontrivial"),
        "rule": format!("all cases distinct; non-trivial = the input carries (part of) a macro envelope. Also: for three lists x two mode sets x macros x FNC1 x ten messages all 24 orders of the four builder setters give the same symbol and codewords. Oracle: first codeword is 236/237 iff macros on, no FNC1, \
05/06 header and RS EOT trailer; body by reference decoder R5; decode_data == input. Sweep: {}", gen::describe_parts(&parts)),
        "exhaustive": true,
    });
    ctx.finish("exploration", cov, vec!["R5 re-expands the envelope from the macro codeword as ISO/IEC 16022 5.2.4.8 specifies".into()])
}

pub fn replay(case: &Value) -> Result<(), String> {
    if case["kind"] == "builder" {
        return super::c12::replay(case);
    }
    let (cfg, input) = Cfg::from_json(case);
    eval(&cfg, &input, &mut Stats::default())
}
