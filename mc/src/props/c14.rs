//! C14 — string API round trip with automatic ECI selection.

use datamatrix::data::{decode_str, latin1_to_utf8, utf8_to_latin1};
use datamatrix::{DataMatrix, SymbolList};
use serde_json::{json, Value};

use crate::explore::{guarded, Ctx, Stats};
use crate::gen::{self, Family};
use crate::refmodel::{charset, decoder};

pub fn eval_str(s: &str, st: &mut Stats) -> Result<(), String> {
    let r = guarded(|| DataMatrix::encode_str(s, SymbolList::default())).map_err(|p| format!("encode_str: {}", p))?;
    let dm = match r {
        Ok(dm) => dm,
        Err(_) => {
            st.count("refused");
            return Ok(());
        }
    };
    let cw = dm.data_codewords();
    let back = guarded(|| decode_str(cw)).map_err(|p| format!("decode_str: {}", p))?;
    match &back {
        Ok(t) if t == s => {}
        other => return Err(format!("decode_str(encode_str(s)) = {:?}", other)),
    }
    let p = decoder::decode(cw).map_err(|e| format!("reference decoder rejects {:?}: {}", cw, e))?;
    let latin1: Option<Vec<u8>> = s.chars().map(|c| if (c as u32) < 256 && charset::latin1(c as u32 as u8).is_some() { Some(c as u32 as u8) } else { None }).collect();
    match latin1 {
        Some(bytes) => {
            if !p.eci.is_empty() {
                return Err(format!("printable Latin-1 string carries ECI {:?}", p.eci));
            }
            if p.out != bytes {
                return Err(format!("Latin-1 string encoded as {:02x?}", p.out));
            }
            st.count("latin1_without_eci");
        }
        None => {
            if p.eci != vec![(0usize, 26u32)] {
                return Err(format!("non-Latin-1 string carries ECIs {:?} instead of one UTF-8 designator at the start", p.eci));
            }
            if p.out != s.as_bytes() {
                return Err(format!("payload {:02x?} is not the UTF-8 encoding", p.out));
            }
            let start = if p.macro_cw.is_some() { 1 } else { 0 };
            if cw.get(start..start + 2) != Some(&[241u8, 27][..]) {
                return Err(format!("stream does not begin with the UTF-8 designator: {:?}", &cw[..cw.len().min(4)]));
            }
            st.count("utf8_with_eci");
            st.count("nontrivial");
            if p.macro_cw.is_some() {
                st.count("macro_and_eci");
            }
        }
    }
    Ok(())
}

fn sdesc(s: &str) -> Value {
    json!({"kind": "str", "utf8": crate::explore::hex(s.as_bytes())})
}

pub fn run(ctx: &Ctx) -> i32 {
    // 1. every scalar value as a one-character string; helper on every scalar value
    ctx.par(0x110000 / 0x400, |c, w| {
        w.label(|| format!("scalar values from U+{:X}", c * 0x400));
        for u in c * 0x400..(c + 1) * 0x400 {
            if let Some(ch) = char::from_u32(u as u32) {
                let s = ch.to_string();
                w.sample(|| sdesc(&s));
                w.check(1, || sdesc(&s), |st| {
                    eval_str(&s, st)?;
                    let want = if u < 256 && charset::latin1(u as u8).is_some() { Some(vec![u as u8]) } else { None };
                    if utf8_to_latin1(&s) != want {
                        return Err(format!("utf8_to_latin1 = {:?}", utf8_to_latin1(&s)));
                    }
                    Ok(())
                });
            }
        }
    });
    // 2. strings over a class alphabet
    let alpha12: Vec<char> = vec!['A', 'a', '1', '\u{1E}', '\u{04}', 'é', '\u{80}', '€', '😀', '~', '\u{A0}', '\u{7F}'];
    let mut alpha24 = alpha12.clone();
    alpha24.extend([' ', '*', '\r', 'ÿ', '\u{9F}', '\u{100}', '\u{7FF}', '\u{800}', '\u{FFFF}', '\u{10000}', '\u{1D}', '[']);
    let plans: Vec<(Vec<char>, usize)> = ctx.tier.pick(vec![(alpha12.clone(), 5), (alpha24.clone(), 3)], vec![(alpha12.clone(), 6), (alpha24.clone(), 4)]);
    for (alpha, maxlen) in plans {
        let idx: Vec<u8> = (0..alpha.len() as u8).collect();
        let fam = Family::Over { alpha: idx, min: 0, max: maxlen };
        let n = fam.size();
        ctx.par((n + 511) / 512, |c, w| {
            w.label(|| format!("strings over {} characters chunk {}", alpha.len(), c));
            let mut ix = Vec::new();
            for i in c * 512..((c + 1) * 512).min(n) {
                fam.get(i, &mut ix);
                let s: String = ix.iter().map(|k| alpha[*k as usize]).collect();
                w.check(s.len() as u64, || sdesc(&s), |st| eval_str(&s, st));
                // macro envelope around it
                if ix.len() <= 3 {
                    for head in ["[)>\u{1E}05\u{1D}", "[)>\u{1E}06\u{1D}"] {
                        let m = format!("{}{}\u{1E}\u{04}", head, s);
                        w.check(m.len() as u64, || sdesc(&m), |st| eval_str(&m, st));
                    }
                }
            }
        });
    }
    // 2b. length sweep: a run of k characters of one class followed by one character whose UTF-8
    //     encoding ends in a boundary byte (0x80, 0xBF, ...) - the end-of-data rules see the last bytes
    let finals: Vec<&str> = vec!["\u{80}", "π", "\u{3000}", "€", "é", "😀", "\u{7FF}", "\u{FFFF}", "ÿ", "\u{100}", "A", "1", "07", "π07", "é1", "12a"];
    let runs: Vec<&str> = vec!["a", "A", "1", "a ", "aA1*"];
    ctx.par((runs.len() * 131) as u64, |c, w| {
        let r = runs[c as usize / 131];
        let k = c as usize % 131;
        w.label(|| format!("length sweep run {:?} x {}", r, k));
        for f in &finals {
            let mut s: String = r.chars().cycle().take(k).collect();
            s.push_str(f);
            w.check(s.len() as u64, || sdesc(&s), |st| eval_str(&s, st));
            let m = format!("[)>\u{1E}05\u{1D}{}\u{1E}\u{04}", s);
            w.check(m.len() as u64, || sdesc(&m), |st| eval_str(&m, st));
        }
    });
    // 2c. every scalar value (quick: the whole BMP and the boundary scalars of every 4096-block of the
    //     astral planes) isolated inside a run of another class, so that its UTF-8 bytes are carried by
    //     C40 / Text / ASCII digits with upper shifts instead of by a run of their own
    {
        let thorough = ctx.tier == crate::explore::Tier::Thorough;
        let carriers: [(&str, &str); 3] = [("ABCDEFGH", "IJKLMNOP"), ("abcdefgh", "ijklmnop"), ("12345678", "12345678")];
        ctx.par(0x110000 / 0x400, |c, w| {
            w.label(|| format!("scalar values from U+{:X} inside carrier runs", c * 0x400));
            for u in c * 0x400..(c + 1) * 0x400 {
                if !thorough && u >= 0x10000 {
                    let low = u & 0xFFF;
                    let edge = low < 0x40 || low >= 0xFC0 || matches!(u & 0x3F, 0 | 0x1F | 0x3F);
                    if !edge {
                        continue;
                    }
                }
                if let Some(ch) = char::from_u32(u as u32) {
                    for (pre, post) in carriers {
                        let s = format!("{}{}{}", pre, ch, post);
                        w.check(s.len() as u64, || sdesc(&s), |st| eval_str(&s, st));
                    }
                }
            }
        });
    }
    // 2d. long strings of non-ASCII characters: payload lengths on both sides of every multiple of
    //     250 bytes (the Base256 length field changes its form there) up to the largest symbol
    {
        let units: Vec<&str> = vec!["é", "Б", "€", "😀", "\u{80}", "éa", "ÿ\u{A0}"];
        let mut cases: Vec<String> = Vec::new();
        for u in &units {
            // payload bytes per unit: Latin-1 strings are written as Latin-1 bytes, the others as UTF-8
            let latin1 = u.chars().all(|c| (c as u32) < 256 && charset::latin1(c as u32 as u8).is_some());
            let per = if latin1 { u.chars().count() } else { u.len() };
            for m in 1..=6usize {
                for d in -3i64..=3 {
                    let bytes = (250 * m) as i64 + d;
                    let k = (bytes as usize + per - 1) / per;
                    for pre in ["", "A", "12"] {
                        let mut t = String::from(pre);
                        for _ in 0..k {
                            t.push_str(u);
                        }
                        cases.push(t);
                    }
                }
            }
        }
        cases.sort();
        cases.dedup();
        ctx.par(cases.len() as u64, |c, w| {
            let t = &cases[c as usize];
            w.label(|| format!("long non-ASCII string {} bytes", t.len()));
            w.check(t.len() as u64, || sdesc(t), |st| eval_str(t, st));
        });
    }
    // 2e. a long run of non-ASCII characters at a Base256 length-field boundary, an EDIFACT-favouring
    //     middle part of every length 0..=40 and a short suffix (the string image of ES-J2), on the
    //     Latin-1 path and on the UTF-8 path
    {
        let mut prefixes: Vec<String> = Vec::new();
        for l in [249usize, 250, 251] {
            prefixes.push("é".repeat(l));
            prefixes.push(format!("1234{}", "·".repeat(l)));
        }
        for l in [124usize, 125, 126] {
            prefixes.push("Ā".repeat(l));
        }
        let middles = ["<?@[]^;:", ".,-/"];
        let mut cases: Vec<String> = Vec::new();
        for p in &prefixes {
            let sfx: [&str; 6] = if p.starts_with('Ā') { ["", "a", "ab", "Ā", "1", "12"] } else { ["", "a", "ab", "é", "1", "12"] };
            for mid in middles {
                for j in 0..=40usize {
                    for x in sfx {
                        let mut t = p.clone();
                        t.extend(mid.chars().cycle().take(j));
                        t.push_str(x);
                        cases.push(t);
                    }
                }
            }
        }
        ctx.par(cases.len() as u64, |c, w| {
            let t = &cases[c as usize];
            w.label(|| format!("long run + EDIFACT middle + suffix, {} bytes", t.len()));
            w.check(t.len() as u64, || sdesc(t), |st| eval_str(t, st));
        });
    }
    // 2f. the string image of ES-P (run + island + run + foreign tail; byte 0x80 becomes e-acute), on the
    //     Latin-1 path and, behind a euro sign, on the UTF-8 path
    {
        let fam = gen::es_p();
        let n = fam.size();
        ctx.par((n + 255) / 256, |c, w| {
            w.label(|| format!("string image of ES-P chunk {}", c));
            let mut b = Vec::new();
            for i in c * 256..((c + 1) * 256).min(n) {
                fam.get(i, &mut b);
                let t: String = b.iter().map(|x| if *x >= 0x80 { 'é' } else { *x as char }).collect();
                w.check(t.len() as u64, || sdesc(&t), |st| eval_str(&t, st));
                let u = format!("€{}", t);
                w.check(u.len() as u64, || sdesc(&u), |st| eval_str(&u, st));
            }
        });
    }
    // 3. strings of length 2..3 around the Latin-1 boundaries
    let edge: Vec<char> = [0x1Fu32, 0x20, 0x7E, 0x7F, 0x9F, 0xA0, 0xFF, 0x100].iter().map(|u| char::from_u32(*u).unwrap()).collect();
    ctx.seq(|w| {
        w.label(|| "latin-1 boundaries".into());
        for a in &edge {
            for b in &edge {
                let s: String = [*a, *b].iter().collect();
                w.check(2, || sdesc(&s), |st| eval_str(&s, st));
                for c in &edge {
                    let s: String = [*a, *b, *c].iter().collect();
                    w.check(3, || sdesc(&s), |st| eval_str(&s, st));
                }
            }
        }
    });
    // 4. helpers: latin1_to_utf8 on all single bytes and pairs, inverse of utf8_to_latin1
    ctx.par(256, |c, w| {
        let a = c as u8;
        w.label(|| format!("latin1 helpers first byte {}", a));
        let hdesc = |b: &[u8]| json!({"kind": "latin1", "bytes": crate::explore::hex(b)});
        let check = |bytes: &[u8], st: &mut Stats| -> Result<(), String> {
            let want: Option<String> = bytes.iter().map(|b| charset::latin1(*b)).collect();
            let got = guarded(|| latin1_to_utf8(bytes)).map_err(|p| format!("latin1_to_utf8: {}", p))?;
            if got != want {
                return Err(format!("latin1_to_utf8 = {:?}, ISO 8859-1 gives {:?}", got, want));
            }
            if let Some(s) = got {
                if utf8_to_latin1(&s).as_deref() != Some(bytes) {
                    return Err("utf8_to_latin1 does not invert latin1_to_utf8".into());
                }
                st.count("nontrivial");
            }
            Ok(())
        };
        w.check(1, || hdesc(&[a]), |st| check(&[a], st));
        for b in 0..=255u8 {
            w.check(2, || hdesc(&[a, b]), |st| check(&[a, b], st));
        }
        // the byte at several positions of longer inputs (block-wise conversion paths)
        for len in [15usize, 16, 17, 31, 32, 33, 64] {
            for pos in [0usize, 7, 15, 16, len - 1] {
                if pos >= len {
                    continue;
                }
                for fill in [b'a', 0xE9u8] {
                    let mut v = vec![fill; len];
                    v[pos] = a;
                    w.check(len as u64, || hdesc(&v), |st| check(&v, st));
                }
            }
        }
    });
    let _ = gen::SIGMA10;
    let cov = json!({
        "evaluations": ctx.evaluations(),
        "distinct_nontrivial": ctx.counter("nontrivial"),
        "rule": format!("every Unicode scalar value (1,112,064) as a one-character string through encode_str -> data_codewords -> decode_str, and through utf8_to_latin1; all strings over a 12-character class alphabet \
(ASCII letters/digit, RS, EOT, e-acute, U+0080, euro, emoji, ~, NBSP, DEL) of length <= {} and over 24 characters of length <= {}, each (up to length 3) also inside the macro 05/06 envelope (length <= 3); every scalar value (quick tier: the whole BMP plus, in the astral planes, the first and last 64 scalars of every 4096-block and every scalar whose low six bits are 0, 0x1F or 0x3F; thorough tier: all of them) isolated between two runs of upper-case letters, of lower-case letters and of digits; long strings of seven non-ASCII units with payload lengths 250m-3..250m+3 bytes (m = 1..6), bare and after \"A\" / \"12\"; a run of 249..251 Latin-1 characters (124..126 two-byte characters on the UTF-8 path) followed by an EDIFACT-favouring middle part of every length 0..40 and six suffixes; the string image of ES-P (run + island + run + foreign tail), bare and behind a euro sign; a length sweep (runs of 0..130 characters of five classes followed by one of 16 endings (12 single characters, two digits, two digits after a non-Latin-1 character ...), plain and inside the macro 05 envelope); all strings of length 2..3 over the Latin-1 boundary characters; \
latin1_to_utf8 on all 256 bytes, 65,536 pairs and every byte at five positions of inputs of 15..64 bytes against ISO 8859-1 by rule, utf8_to_latin1 as its inverse. Oracle: round trip; printable Latin-1 => no ECI and Latin-1 bytes (reference decoder R5); otherwise exactly one UTF-8 designator (241 27) first (after a macro codeword) and UTF-8 payload. \
All cases distinct; non-trivial = UTF-8/ECI path taken or helper defined.", ctx.tier.pick(5, 6), ctx.tier.pick(3, 4)),
        "exhaustive": true,
        "latin1_without_eci": ctx.counter("latin1_without_eci"),
        "utf8_with_eci": ctx.counter("utf8_with_eci"),
        "macro_and_eci": ctx.counter("macro_and_eci"),
    });
    ctx.finish("exploration", cov, vec!["long strings only through the class alphabets".into()])
}

pub fn replay(case: &Value) -> Result<(), String> {
    let mut st = Stats::default();
    match case["kind"].as_str().unwrap_or("") {
        "str" => {
            let b = crate::explore::unhex(case["utf8"].as_str().ok_or("utf8")?);
            eval_str(std::str::from_utf8(&b).map_err(|e| e.to_string())?, &mut st)
        }
        "latin1" => {
            let bytes = crate::explore::unhex(case["bytes"].as_str().ok_or("bytes")?);
            let want: Option<String> = bytes.iter().map(|b| charset::latin1(*b)).collect();
            if latin1_to_utf8(&bytes) != want {
                return Err(format!("latin1_to_utf8 = {:?}", latin1_to_utf8(&bytes)));
            }
            Ok(())
        }
        _ => Err("unknown case kind".into()),
    }
}
