//! C08 — finder/alignment rendering and strict bitmap parsing are mutual inverses (R4).

use datamatrix::placement::{BitmapConversionError, MatrixMap};
use serde_json::{json, Value};

use super::c07::{ref_bitmap, ref_sym, RefSym};
use crate::bridge::{self, SIZES};
use crate::explore::{guarded, Ctx, Stats, Tier};
use crate::refmodel::render::{classify, Module};
use crate::refmodel::symbols::{by_dims, SYMBOLS};

fn bits_str(b: &[bool]) -> String {
    b.iter().map(|x| if *x { '1' } else { '0' }).collect()
}

fn bits_from(s: &str) -> Vec<bool> {
    s.chars().map(|c| c == '1').collect()
}

/// Forward direction: render content, compare with R4, parse back.
pub fn eval_forward(si: usize, rs: &RefSym, cw: &[u8], st: &mut Stats) -> Result<(), String> {
    let sy = &SYMBOLS[si];
    let m = MatrixMap::new_with_codewords(cw, SIZES[si]);
    let bm = guarded(|| m.bitmap()).map_err(|p| format!("bitmap: {}", p))?;
    if bm.width() != sy.cols || bm.height() != sy.rows {
        return Err(format!("bitmap is {}x{}", bm.height(), bm.width()));
    }
    let want = ref_bitmap(rs, cw);
    if bm.bits() != &want[..] {
        let i = bm.bits().iter().zip(want.iter()).position(|(a, b)| a != b).unwrap_or(0);
        return Err(format!("module (row {}, col {}) rendered {} but the finder/alignment/placement rules give {}", i / sy.cols, i % sy.cols, bm.bits()[i], want[i]));
    }
    let (m2, s2) = guarded(|| MatrixMap::try_from_bits(bm.bits(), bm.width()))
        .map_err(|p| format!("try_from_bits: {}", p))?
        .map_err(|e| format!("try_from_bits rejects a rendering: {:?}", e))?;
    if s2 != SIZES[si] {
        return Err(format!("parsed size {:?}", s2));
    }
    if m2 != m {
        return Err("parsed content differs from the rendered content".into());
    }
    if m2.codewords() != cw {
        return Err("parsed codewords differ".into());
    }
    st.count("forward");
    st.count("nontrivial");
    Ok(())
}

/// Converse direction for an arbitrary pixel array.
pub fn eval_pixels(px: &[bool], width: usize, st: &mut Stats) -> Result<(), String> {
    let r = guarded(|| MatrixMap::try_from_bits(px, width)).map_err(|p| format!("try_from_bits: {}", p))?;
    // the classification the property states
    let expected_class = if width == 0 {
        Some(BitmapConversionError::ZeroWidth)
    } else if px.len() % width != 0 {
        Some(BitmapConversionError::DataSize)
    } else if by_dims(px.len() / width, width).is_none() {
        Some(BitmapConversionError::SymbolSize)
    } else {
        None
    };
    match (r, expected_class) {
        (Err(e), Some(c)) => {
            if e != c {
                return Err(format!("rejected with {:?}, the property demands {:?}", e, c));
            }
            st.count(match c {
                BitmapConversionError::ZeroWidth => "rejected_zero_width",
                BitmapConversionError::DataSize => "rejected_data_size",
                _ => "rejected_symbol_size",
            });
            Ok(())
        }
        (Ok((_, s)), Some(c)) => Err(format!("accepted as {:?} although {:?} is demanded", s, c)),
        (Err(e), None) => {
            match e {
                BitmapConversionError::Alignment => st.count("rejected_alignment"),
                BitmapConversionError::Padding => st.count("rejected_padding"),
                other => return Err(format!("dimensions match a symbol but the error is {:?}", other)),
            }
            Ok(())
        }
        (Ok((m, s)), None) => {
            let si = bridge::ref_index(s);
            let sy = &SYMBOLS[si];
            if sy.cols != width || sy.rows * sy.cols != px.len() {
                return Err(format!("accepted as {:?} which has other dimensions", s));
            }
            let bm = m.bitmap();
            if bm.bits() != px {
                let i = bm.bits().iter().zip(px.iter()).position(|(a, b)| a != b).unwrap_or(0);
                return Err(format!(
                    "accepted, but re-rendering differs at (row {}, col {}) which is a {:?} module",
                    i / width, i % width, classify(sy, i / width, i % width)
                ));
            }
            // the content of a symbol are its codewords: rendering them again must give the same
            // array too (the fixed corner pattern is not content)
            let again = MatrixMap::new_with_codewords(&m.codewords(), s).bitmap();
            if again.bits() != px {
                let i = again.bits().iter().zip(px.iter()).position(|(a, b)| a != b).unwrap_or(0);
                return Err(format!("accepted, but rendering the parsed codewords differs at (row {}, col {})", i / width, i % width));
            }
            st.count("accepted");
            Ok(())
        }
    }
}

fn cw_contents(si: usize) -> Vec<Vec<u8>> {
    let n = SYMBOLS[si].total();
    let mut v = vec![vec![0u8; n], vec![0xFF; n], (0..n).map(|i| if i % 2 == 0 { 0xAA } else { 0x55 }).collect::<Vec<u8>>()];
    for seed in 1..=3u64 {
        let mut s = seed * 1234567 + si as u64;
        v.push((0..n).map(|_| { s = s.wrapping_mul(6364136223846793005).wrapping_add(1442695040888963407); (s >> 33) as u8 }).collect());
    }
    v
}

fn pdesc(px: &[bool], width: usize) -> Value {
    json!({"kind": "pixels", "width": width, "bits": bits_str(px)})
}

pub fn run(ctx: &Ctx) -> i32 {
    let refs: Vec<RefSym> = (0..48).map(ref_sym).collect();
    // forward: contents incl. every single data module
    let mut chunks = Vec::new();
    for si in 0..48 {
        let n = SYMBOLS[si].total();
        let mut a = 0;
        while a < n {
            chunks.push((si, a, (a + 64).min(n)));
            a += 64;
        }
    }
    ctx.par(chunks.len() as u64, |c, w| {
        let (si, a, b) = chunks[c as usize];
        w.label(|| format!("forward {} codewords {}..{}", SYMBOLS[si].name(), a, b));
        let n = SYMBOLS[si].total();
        let fdesc = |cw: &[u8]| json!({"kind": "forward", "size": bridge::size_name(si), "codewords": crate::explore::hex(cw)});
        if a == 0 {
            for cw in cw_contents(si) {
                w.sample(|| fdesc(&cw));
                w.check(si as u64, || fdesc(&cw), |st| eval_forward(si, &refs[si], &cw, st));
            }
        }
        let mut cw = vec![0u8; n];
        for i in a..b {
            for bit in 0..8 {
                cw[i] = 1 << bit;
                w.check(si as u64, || fdesc(&cw), |st| eval_forward(si, &refs[si], &cw, st));
            }
            cw[i] = 0;
        }
    });
    // converse: single flips of three valid symbols, all sizes; rows as chunks
    let mut chunks = Vec::new();
    for si in 0..48 {
        for r in 0..SYMBOLS[si].rows {
            chunks.push((si, r));
        }
    }
    ctx.par(chunks.len() as u64, |c, w| {
        let (si, r) = chunks[c as usize];
        let sy = &SYMBOLS[si];
        w.label(|| format!("single flips {} row {}", sy.name(), r));
        let contents = cw_contents(si);
        for cw in [&contents[0], &contents[3], &contents[4]] {
            let mut px = ref_bitmap(&refs[si], cw);
            for col in 0..sy.cols {
                let i = r * sy.cols + col;
                px[i] = !px[i];
                w.check((si * 10 + 1) as u64, || pdesc(&px, sy.cols), |st| {
                    let before = st.counters.get("accepted").copied().unwrap_or(0);
                    let res = eval_pixels(&px, sy.cols, st);
                    let accepted = st.counters.get("accepted").copied().unwrap_or(0) > before;
                    // a flipped data module must be accepted, a flipped border/fixed module rejected
                    let is_data = match classify(sy, r, col) {
                        Module::Data(mr, mc) => !(sy.has_fixed_corner() && mr + 2 >= sy.map_rows() && mc + 2 >= sy.map_cols()),
                        Module::Border(_) => false,
                    };
                    res?;
                    if accepted != is_data {
                        return Err(format!("flip of a {} module at (row {}, col {}) is {}", if is_data { "data" } else { "finder/alignment/fixed" }, r, col, if accepted { "accepted" } else { "rejected" }));
                    }
                    st.count("nontrivial");
                    Ok(())
                });
                px[i] = !px[i];
            }
        }
    });
    // double flips for sizes up to 16x16 (thorough: 18x18, 8x32 too)
    let limit = ctx.tier.pick(256, 324);
    let mut chunks = Vec::new();
    for si in 0..48 {
        let n = SYMBOLS[si].rows * SYMBOLS[si].cols;
        if n <= limit {
            for i in 0..n {
                chunks.push((si, i));
            }
        }
    }
    ctx.par(chunks.len() as u64, |c, w| {
        let (si, i) = chunks[c as usize];
        let sy = &SYMBOLS[si];
        w.label(|| format!("double flips {} first {}", sy.name(), i));
        let contents = cw_contents(si);
        for cw in [&contents[0], &contents[3]] {
            let mut px = ref_bitmap(&refs[si], cw);
            px[i] = !px[i];
            for j in i + 1..px.len() {
                px[j] = !px[j];
                w.check((si * 10 + 2) as u64, || pdesc(&px, sy.cols), |st| {
                    eval_pixels(&px, sy.cols, st)?;
                    st.count("nontrivial");
                    Ok(())
                });
                px[j] = !px[j];
            }
        }
    });
    // all patterns of every group of 12 consecutive border modules, sizes up to 26x26 (thorough: all sizes up to 52x52)
    let lim = ctx.tier.pick(26 * 26, 52 * 52);
    let mut chunks = Vec::new();
    for si in 0..48 {
        let sy = &SYMBOLS[si];
        if sy.rows * sy.cols > lim {
            continue;
        }
        let border: Vec<usize> = (0..sy.rows * sy.cols).filter(|i| matches!(classify(sy, i / sy.cols, i % sy.cols), Module::Border(_))).collect();
        for g in border.chunks(12) {
            chunks.push((si, g.to_vec()));
        }
    }
    ctx.par(chunks.len() as u64, |c, w| {
        let (si, group) = &chunks[c as usize];
        let sy = &SYMBOLS[*si];
        w.label(|| format!("border group {} {:?}", sy.name(), &group[..2.min(group.len())]));
        let contents = cw_contents(*si);
        let base = ref_bitmap(&refs[*si], &contents[3]);
        let mut px = base.clone();
        for pat in 0u32..1 << group.len() {
            for (k, i) in group.iter().enumerate() {
                px[*i] = pat >> k & 1 == 1;
            }
            let valid = px == base;
            w.check((*si * 10 + 3) as u64, || pdesc(&px, sy.cols), |st| {
                let before = st.counters.get("accepted").copied().unwrap_or(0);
                eval_pixels(&px, sy.cols, st)?;
                let accepted = st.counters.get("accepted").copied().unwrap_or(0) > before;
                if accepted != valid {
                    return Err(format!("finder pattern deviation is {}", if accepted { "accepted" } else { "rejected although it is the valid pattern" }));
                }
                st.count("nontrivial");
                Ok(())
            });
        }
    });
    // structural deviations of whole finder/clock/alignment segments: every side of every region,
    // all 48 sizes: inverted, inverted without its end modules, all dark, all light, phase shifted,
    // every inverted prefix and suffix
    let mut chunks = Vec::new();
    for si in 0..48 {
        let sy = &SYMBOLS[si];
        let (rh, rw) = (sy.reg_rows + 2, sy.reg_cols + 2);
        for rv in 0..sy.reg_v {
            for rhz in 0..sy.reg_h {
                let (r0, c0) = (rv * rh, rhz * rw);
                let top: Vec<usize> = (0..rw).map(|c| r0 * sy.cols + c0 + c).collect();
                let bottom: Vec<usize> = (0..rw).map(|c| (r0 + rh - 1) * sy.cols + c0 + c).collect();
                let left: Vec<usize> = (0..rh).map(|r| (r0 + r) * sy.cols + c0).collect();
                let right: Vec<usize> = (0..rh).map(|r| (r0 + r) * sy.cols + c0 + rw - 1).collect();
                for seg in [top, bottom, left, right] {
                    chunks.push((si, seg));
                }
            }
        }
    }
    ctx.par(chunks.len() as u64, |c, w| {
        let (si, seg) = &chunks[c as usize];
        let sy = &SYMBOLS[*si];
        w.label(|| format!("segment deviations {} from pixel {}", sy.name(), seg[0]));
        let contents = cw_contents(*si);
        let base = ref_bitmap(&refs[*si], &contents[4]);
        let n = seg.len();
        let cur: Vec<bool> = seg.iter().map(|i| base[*i]).collect();
        let mut variants: Vec<Vec<bool>> = Vec::new();
        variants.push(cur.iter().map(|b| !b).collect());
        variants.push((0..n).map(|k| if k == 0 || k == n - 1 { cur[k] } else { !cur[k] }).collect());
        variants.push((0..n).map(|k| if k == 0 { cur[k] } else { !cur[k] }).collect());
        variants.push((0..n).map(|k| if k == n - 1 { cur[k] } else { !cur[k] }).collect());
        variants.push(vec![true; n]);
        variants.push(vec![false; n]);
        variants.push((0..n).map(|k| cur[(k + 1) % n]).collect());
        variants.push((0..n).map(|k| k % 2 == 0).collect());
        variants.push((0..n).map(|k| k % 2 == 1).collect());
        for p in 1..n {
            variants.push((0..n).map(|k| if k < p { !cur[k] } else { cur[k] }).collect());
            variants.push((0..n).map(|k| if k >= p { !cur[k] } else { cur[k] }).collect());
        }
        let mut px = base.clone();
        for v in variants {
            for (k, i) in seg.iter().enumerate() {
                px[*i] = v[k];
            }
            let valid = px == base;
            w.check((*si * 10 + 4) as u64, || pdesc(&px, sy.cols), |st| {
                let before = st.counters.get("accepted").copied().unwrap_or(0);
                eval_pixels(&px, sy.cols, st)?;
                let accepted = st.counters.get("accepted").copied().unwrap_or(0) > before;
                if accepted != valid {
                    return Err(format!("deviation of a whole finder/clock/alignment segment is {}", if accepted { "accepted" } else { "rejected although it is the valid pattern" }));
                }
                st.count("nontrivial");
                Ok(())
            });
        }
        for (k, i) in seg.iter().enumerate() {
            px[*i] = cur[k];
        }
    });
    // all 16 patterns of the fixed corner of the four sizes that have one
    ctx.seq(|w| {
        w.label(|| "fixed corner patterns".into());
        for si in 0..48 {
            let sy = &SYMBOLS[si];
            if !sy.has_fixed_corner() {
                continue;
            }
            let contents = cw_contents(si);
            for cw in [&contents[0], &contents[3]] {
                let base = ref_bitmap(&refs[si], cw);
                // the 2x2 corner of the mapping matrix sits just inside the bottom right finder corner
                let cells = [(sy.rows - 3, sy.cols - 3), (sy.rows - 3, sy.cols - 2), (sy.rows - 2, sy.cols - 3), (sy.rows - 2, sy.cols - 2)];
                for pat in 0..16u32 {
                    let mut px = base.clone();
                    for (k, (r, c)) in cells.iter().enumerate() {
                        px[r * sy.cols + c] = pat >> k & 1 == 1;
                    }
                    let valid = px == base;
                    w.check((si * 10 + 5) as u64, || pdesc(&px, sy.cols), |st| {
                        let before = st.counters.get("accepted").copied().unwrap_or(0);
                        eval_pixels(&px, sy.cols, st)?;
                        let accepted = st.counters.get("accepted").copied().unwrap_or(0) > before;
                        if accepted != valid {
                            return Err(format!("fixed corner pattern {:04b} is {}", pat, if accepted { "accepted" } else { "rejected although it is the valid pattern" }));
                        }
                        st.count("nontrivial");
                        Ok(())
                    });
                }
            }
        }
    });
    // valid renderings with surplus or missing pixels, or presented with a neighbouring width
    ctx.par(48, |c, w| {
        let si = c as usize;
        let sy = &SYMBOLS[si];
        w.label(|| format!("surplus pixels {}", sy.name()));
        let contents = cw_contents(si);
        let base = ref_bitmap(&refs[si], &contents[3]);
        for r in [1usize, 2, sy.cols / 2, sy.cols - 1, sy.cols, sy.cols + 1] {
            for fill in [false, true] {
                let mut px = base.clone();
                px.extend(std::iter::repeat(fill).take(r));
                w.check((si * 10 + 6) as u64, || pdesc(&px, sy.cols), |st| { eval_pixels(&px, sy.cols, st)?; st.count("nontrivial"); Ok(()) });
            }
            if r < base.len() {
                let px = &base[..base.len() - r];
                w.check((si * 10 + 6) as u64, || pdesc(px, sy.cols), |st| { eval_pixels(px, sy.cols, st)?; st.count("nontrivial"); Ok(()) });
            }
        }
        for wd in [sy.cols - 1, sy.cols + 1, sy.rows, 2 * sy.cols, sy.cols / 2] {
            if wd > 0 && wd != sy.cols {
                w.check((si * 10 + 6) as u64, || pdesc(&base, wd), |st| { eval_pixels(&base, wd, st)?; st.count("nontrivial"); Ok(()) });
            }
        }
    });
    // lattice of (width, length), uniform contents
    ctx.par(151, |c, w| {
        let width = c as usize;
        w.label(|| format!("lattice width {}", width));
        for h in 0..=150usize {
            let mut lens = vec![width * h, width * h + 1];
            if width >= 2 {
                lens.push(width * h + width - 1);
            }
            for len in lens {
                for fill in [false, true] {
                    let px = vec![fill; len];
                    w.check((width + len) as u64, || json!({"kind": "uniform", "width": width, "len": len, "fill": fill}), |st| eval_pixels(&px, width, st));
                }
            }
        }
    });
    let cov = json!({
        "evaluations": ctx.evaluations(),
        "distinct_nontrivial": ctx.counter("nontrivial"),
        "rule": format!("forward: 48 sizes x (zero, ones, checker, 3 LCG contents, every single data module): bitmap() == reference rendering (R3+R4), try_from_bits returns the same content and size. \
Converse, deviation-bounded from valid symbols: every single-module flip of 3 valid symbols of every size (data flip must be accepted, finder/alignment/fixed-corner flip rejected), every double flip for sizes up to {} modules, \
all 2^12 patterns of every group of 12 consecutive finder/alignment modules for sizes up to {} modules; structural deviations of every side of every region of all 48 sizes (inverted, inverted without end modules, all dark, all light, phase shifted, every inverted prefix and suffix): accepted => re-rendering (of the parsed map and of its codewords) is identical bit for bit. All 16 patterns of the fixed corner of 12x12, 16x16, 20x20, 24x24; valid renderings with surplus / missing pixels or a neighbouring width. Lattice: width 0..=150 x height 0..=150 x lengths (w*h, w*h+1, w*h+w-1) x 2 uniform fills: \
ZeroWidth / DataSize / SymbolSize with that precedence. All cases distinct; non-trivial = forward cases and deviation cases.", limit, lim),
        "exhaustive": true,
        "accepted": ctx.counter("accepted"),
        "rejected_alignment": ctx.counter("rejected_alignment"),
        "rejected_padding": ctx.counter("rejected_padding"),
    });
    ctx.finish("fault_enumeration", cov, vec![
        "pixel arrays more than two modules (or one border group) away from a valid symbol are reached only through the uniform lattice".into(),
    ])
}

pub fn replay(case: &Value) -> Result<(), String> {
    let mut st = Stats::default();
    match case["kind"].as_str().unwrap_or("") {
        "forward" => {
            let name = case["size"].as_str().ok_or("size")?;
            let si = (0..48).find(|i| bridge::size_name(*i) == name).ok_or("unknown size")?;
            eval_forward(si, &ref_sym(si), &crate::explore::unhex(case["codewords"].as_str().ok_or("codewords")?), &mut st)
        }
        "pixels" => eval_pixels(&bits_from(case["bits"].as_str().ok_or("bits")?), case["width"].as_u64().ok_or("width")? as usize, &mut st),
        "uniform" => {
            let px = vec![case["fill"].as_bool().unwrap_or(false); case["len"].as_u64().ok_or("len")? as usize];
            eval_pixels(&px, case["width"].as_u64().ok_or("width")? as usize, &mut st)
        }
        _ => Err("unknown case kind".into()),
    }
}
