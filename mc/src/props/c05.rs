//! C05 — decoding untrusted input never panics or hangs (both build profiles).

use datamatrix::data::{decode_data, decode_str};
use datamatrix::errorcode::decode_error;
use datamatrix::placement::MatrixMap;
use datamatrix::DataMatrix;
use serde_json::{json, Value};

use super::c07::{ref_bitmap, ref_sym, RefSym};
use super::c09;
use super::common;
use super::rs;
use crate::bridge::{self, Cfg, ListMask, SIZES};
use crate::explore::{guarded, hex, is_child, run_plain_child, unhex, Ctx, Stats, Tier};
use crate::gen::{self, Family};
use crate::refmodel::symbols::SYMBOLS;

/// codeword class alphabet
pub const CW24: [u8; 24] = [0, 1, 66, 128, 129, 130, 229, 230, 231, 232, 233, 234, 235, 236, 237, 238, 239, 240, 241, 242, 253, 254, 255, 10];

pub fn eval_stream(cw: &[u8], st: &mut Stats) -> Result<(), String> {
    let a = guarded(|| decode_data(cw)).map_err(|p| format!("decode_data: {}", p))?;
    let b = guarded(|| decode_str(cw)).map_err(|p| format!("decode_str: {}", p))?;
    match a {
        Ok(_) => st.count("decode_data_ok"),
        Err(e) => {
            st.count("nontrivial");
            st.distinct("decode_data_error_kinds", crate::explore::fnv64(format!("{:?}", std::mem::discriminant(&e)).as_bytes()))
        }
    }
    if b.is_ok() {
        st.count("decode_str_ok");
    }
    Ok(())
}

pub fn eval_rs(si: usize, recv: &[u8], st: &mut Stats) -> Result<(), String> {
    let mut cw = recv.to_vec();
    let r = guarded(|| decode_error(&mut cw, SIZES[si])).map_err(|p| format!("decode_error: {}", p))?;
    st.count(if r.is_ok() { "rs_ok" } else { "rs_err" });
    if r.is_err() {
        st.count("nontrivial");
    }
    Ok(())
}

pub fn eval_pixels(px: &[bool], width: usize, st: &mut Stats) -> Result<(), String> {
    let a = guarded(|| MatrixMap::try_from_bits(px, width).map(|(_, s)| s)).map_err(|p| format!("try_from_bits: {}", p))?;
    let b = guarded(|| DataMatrix::decode(px, width)).map_err(|p| format!("DataMatrix::decode: {}", p))?;
    if a.is_ok() {
        st.count("pixels_parsed");
    }
    match b {
        Ok(_) => st.count("pixels_decoded"),
        Err(e) => {
            st.count("nontrivial");
            st.distinct("decode_error_kinds", crate::explore::fnv64(format!("{:?}", std::mem::discriminant(&e)).as_bytes()))
        }
    }
    Ok(())
}

fn sdesc(cw: &[u8]) -> Value {
    json!({"kind": "stream", "codewords": hex(cw)})
}

fn bits_str(b: &[bool]) -> String {
    b.iter().map(|x| if *x { '1' } else { '0' }).collect()
}

pub fn run(ctx: &Ctx) -> i32 {
    // A1: all codeword strings of length <= 3
    ctx.par(257, |c, w| {
        if c == 256 {
            w.label(|| "streams of length 0..1".into());
            w.check(0, || sdesc(&[]), |st| eval_stream(&[], st));
            for a in 0..=255u8 {
                w.check(1, || sdesc(&[a]), |st| eval_stream(&[a], st));
            }
            return;
        }
        let a = c as u8;
        w.label(|| format!("streams of length 2..3 starting with {}", a));
        for b in 0..=255u8 {
            w.check(2, || sdesc(&[a, b]), |st| eval_stream(&[a, b], st));
            for d in 0..=255u8 {
                w.check(3, || sdesc(&[a, b, d]), |st| eval_stream(&[a, b, d], st));
            }
        }
    });
    // A2: length 4..=5 (thorough 6) over the class alphabet
    let fam = Family::Over { alpha: CW24.to_vec(), min: 4, max: ctx.tier.pick(5, 6) };
    let n = fam.size();
    let per = 100_000u64;
    ctx.par((n + per - 1) / per, |c, w| {
        w.label(|| format!("class alphabet streams chunk {}", c));
        let mut cw = Vec::new();
        for i in c * per..((c + 1) * per).min(n) {
            fam.get(i, &mut cw);
            w.sample(|| sdesc(&cw));
            w.check(cw.len() as u64, || sdesc(&cw), |st| eval_stream(&cw, st));
        }
    });
    // A3: all ECI designators [241, a, b, c, 66]
    ctx.par(256, |c, w| {
        let a = c as u8;
        w.label(|| format!("ECI designators starting with {}", a));
        for b in 0..=255u8 {
            for d in 0..=255u8 {
                let cw = [241, a, b, d, 66];
                w.check(5, || sdesc(&cw), |st| eval_stream(&cw, st));
            }
        }
    });
    // A4: every charset ECI followed by every byte carried in ASCII (upper shift) and in Base256
    ctx.par(64, |c, w| {
        let e = c as u8; // ECI number 0..=63
        w.label(|| format!("charset ECI {} x all bytes", e));
        for x in 0..=255u8 {
            let ascii: Vec<u8> = if x < 128 { vec![241, e + 1, x + 1] } else { vec![241, e + 1, 235, x - 127] };
            w.check(4, || sdesc(&ascii), |st| eval_stream(&ascii, st));
            // Base256: latch at position 3 (1-based 4), length 1, the byte; randomised by position
            let mut b256 = vec![241, e + 1, 231];
            for v in [1u8, x] {
                let pos = b256.len() + 1;
                b256.push(crate::refmodel::decoder::rand255(v, pos));
            }
            w.check(5, || sdesc(&b256), |st| eval_stream(&b256, st));
            for y in (0..=255u8).step_by(ctx.tier.pick(17, 1)) {
                let mut two = vec![241, e + 1, 231];
                for v in [2u8, x, y] {
                    let pos = two.len() + 1;
                    two.push(crate::refmodel::decoder::rand255(v, pos));
                }
                w.check(6, || sdesc(&two), |st| eval_stream(&two, st));
            }
        }
    });
    // A5: single-codeword deviations of valid streams of the crate's own encoder
    let fam = Family::Over { alpha: gen::SIGMA10.to_vec(), min: 1, max: ctx.tier.pick(3, 4) };
    let n = fam.size();
    let cfgs = gen::cfgs(&gen::modes_quick(), &[ListMask::default_list()], &[true], &[false, true]);
    ctx.par((n + 63) / 64, |c, w| {
        w.label(|| format!("deviations of valid streams chunk {}", c));
        let mut input = Vec::new();
        for i in c * 64..((c + 1) * 64).min(n) {
            fam.get(i, &mut input);
            for cfg in &cfgs {
                if let common::Enc::Ok(dm) = common::encode(cfg, &input) {
                    let mut cw = dm.data_codewords().to_vec();
                    for p in 0..cw.len() {
                        let old = cw[p];
                        for v in CW24 {
                            if v != old {
                                cw[p] = v;
                                w.check(cw.len() as u64, || sdesc(&cw), |st| eval_stream(&cw, st));
                            }
                        }
                        cw[p] = old;
                    }
                    // truncations
                    for l in 0..cw.len() {
                        w.check(l as u64, || sdesc(&cw[..l]), |st| eval_stream(&cw[..l], st));
                    }
                }
            }
        }
    });
    // A6: long valid streams (length sweep fills) with single-codeword deviations and truncations
    let long = gen::es_e_sparse();
    let nl = long.size();
    ctx.par(nl, |c, w| {
        w.label(|| format!("deviations of long valid streams, input {}", c));
        let mut input = Vec::new();
        long.get(c, &mut input);
        let cfg = Cfg::plain();
        if let common::Enc::Ok(dm) = common::encode(&cfg, &input) {
            let mut cw = dm.data_codewords().to_vec();
            let n = cw.len();
            let mut positions = vec![0usize, 1, 2, n / 2, n.saturating_sub(3), n.saturating_sub(2), n.saturating_sub(1)];
            for p in [248usize, 249, 250, 251, 252, 253] {
                positions.push(p);
            }
            positions.retain(|p| *p < n);
            positions.sort_unstable();
            positions.dedup();
            for p in positions {
                let old = cw[p];
                for v in CW24 {
                    if v != old {
                        cw[p] = v;
                        w.check(n as u64, || sdesc(&cw), |st| eval_stream(&cw, st));
                    }
                }
                cw[p] = old;
                w.check(p as u64, || sdesc(&cw[..p]), |st| eval_stream(&cw[..p], st));
            }
        }
    });
    // A7: every truncation point of long valid streams (a length field that promises more than
    //     what is left, at every offset)
    let fills = gen::es_e_patterns();
    let lens = [120usize, 250, 251, 300, 520, 1000];
    ctx.par((fills.len() * lens.len()) as u64, |c, w| {
        let fill = &fills[c as usize / lens.len()];
        let l = lens[c as usize % lens.len()];
        w.label(|| format!("all truncations of a long stream, fill {:?} length {}", &fill[..1], l));
        let input: Vec<u8> = fill.iter().cycle().take(l).cloned().collect();
        for modes in [bridge::ALL_MODES, 0x21] {
            let cfg = Cfg { modes, ..Cfg::plain() };
            if let common::Enc::Ok(dm) = common::encode(&cfg, &input) {
                let cw = dm.data_codewords().to_vec();
                for p in 0..cw.len() {
                    w.check(p as u64, || sdesc(&cw[..p]), |st| eval_stream(&cw[..p], st));
                }
            }
        }
    });
    // B: error correction on words around and beyond the radius
    let jobs = c09::jobs(ctx.tier);
    rs::run_jobs(ctx, &jobs, |job, _orig, recv, _info, w| {
        let si = c09::job_size(job);
        w.stats.distinct("rs_sizes", si as u64);
        w.check((si * 1000) as u64, || json!({"kind": "rs", "size": bridge::size_name(si), "received": hex(recv)}), |st| eval_rs(si, recv, st));
    });
    // C1: pixel lattice
    ctx.par(151, |c, w| {
        let width = c as usize;
        w.label(|| format!("pixel lattice width {}", width));
        for h in 0..=150usize {
            let mut lens = vec![width * h, width * h + 1];
            if width >= 2 {
                lens.push(width * h + width - 1);
            }
            for len in lens {
                for fill in [false, true] {
                    let px = vec![fill; len];
                    w.check((width + len) as u64, || json!({"kind": "uniform", "width": width, "len": len, "fill": fill}), |st| eval_pixels(&px, width, st));
                }
            }
        }
    });
    // C2: every size: valid symbol with every single module flipped; garbage contents under a valid finder
    let refs: Vec<RefSym> = (0..48).map(ref_sym).collect();
    let mut chunks = Vec::new();
    for si in 0..48 {
        for r in 0..SYMBOLS[si].rows {
            chunks.push((si, r));
        }
    }
    ctx.par(chunks.len() as u64, |c, w| {
        let (si, r) = chunks[c as usize];
        let sy = &SYMBOLS[si];
        w.label(|| format!("pixel flips {} row {}", sy.name(), r));
        let msg: Vec<u8> = (0..sy.data / 2 + 1).map(|i| b"Az09 *\x80"[i % 7]).collect();
        let cfg = Cfg { list: ListMask::single(si), ..Cfg::plain() };
        if let common::Enc::Ok(dm) = common::encode(&cfg, &msg) {
            let bm = dm.bitmap();
            let mut px = bm.bits().to_vec();
            for col in 0..sy.cols {
                let i = r * sy.cols + col;
                px[i] = !px[i];
                w.check((si * 10 + 1) as u64, || json!({"kind": "pixels", "width": sy.cols, "bits": bits_str(&px)}), |st| eval_pixels(&px, sy.cols, st));
                if col + 1 < sy.cols && (ctx.tier == Tier::Thorough || sy.rows * sy.cols <= 400) {
                    for j in i + 1..px.len().min(i + 1 + sy.cols) {
                        px[j] = !px[j];
                        w.check((si * 10 + 2) as u64, || json!({"kind": "pixels", "width": sy.cols, "bits": bits_str(&px)}), |st| eval_pixels(&px, sy.cols, st));
                        px[j] = !px[j];
                    }
                }
                px[i] = !px[i];
            }
        }
        if r == 0 {
            // a valid rendering with surplus / missing pixels, and with neighbouring widths
            let zero = vec![0x5Au8; sy.total()];
            let base = ref_bitmap(&refs[si], &zero);
            for extra in [1usize, 2, sy.cols / 2, sy.cols - 1, sy.cols, sy.cols + 1] {
                for fill in [false, true] {
                    let mut px = base.clone();
                    px.extend(std::iter::repeat(fill).take(extra));
                    w.check((si * 10 + 4) as u64, || json!({"kind": "pixels", "width": sy.cols, "bits": bits_str(&px)}), |st| eval_pixels(&px, sy.cols, st));
                }
                let px = &base[..base.len() - extra.min(base.len())];
                w.check((si * 10 + 4) as u64, || json!({"kind": "pixels", "width": sy.cols, "bits": bits_str(px)}), |st| eval_pixels(px, sy.cols, st));
            }
            for wd in [sy.cols - 1, sy.cols + 1, sy.rows, 2 * sy.cols, sy.cols / 2, 1] {
                if wd > 0 {
                    w.check((si * 10 + 4) as u64, || json!({"kind": "pixels", "width": wd, "bits": bits_str(&base)}), |st| eval_pixels(&base, wd, st));
                }
            }
            let n = sy.total();
            let mut contents: Vec<Vec<u8>> = vec![vec![0u8; n], vec![0xFF; n], (0..n).map(|i| if i % 2 == 0 { 0xAA } else { 0x55 }).collect()];
            for seed in 1..=ctx.tier.pick(8u64, 64) {
                let mut s = seed * 7919 + si as u64;
                contents.push((0..n).map(|_| { s = s.wrapping_mul(6364136223846793005).wrapping_add(1442695040888963407); (s >> 33) as u8 }).collect());
            }
            for cw in contents {
                let px = ref_bitmap(&refs[si], &cw);
                w.check((si * 10 + 3) as u64, || json!({"kind": "pixels", "width": sy.cols, "bits": bits_str(&px)}), |st| eval_pixels(&px, sy.cols, st));
            }
        }
    });
    let mut cov = json!({
        "evaluations": ctx.evaluations(),
        "distinct_nontrivial": ctx.counter("nontrivial"),
        "rule": format!("decode_data + decode_str: all codeword strings of length <= 3 over all 256 values; length 4..={} over a 24-value class alphabet; all designators [241,a,b,c,66]; ECI 0..63 x every byte in ASCII/upper-shift and Base256 carriage; \
every single-codeword replacement (24 class values) and every truncation of valid streams of the crate's encoder (sigma10 strings of length <= {} x 18 mode sets x FNC1), and the same at 13 positions of long valid streams (fills of up to 3119 bytes); every truncation point of 108 long valid streams. decode_error: the RS families of C09 on all 48 sizes. \
try_from_bits + DataMatrix::decode: (width, length) lattice 0..=150 x 0..=150 with uniform contents; every single (and neighbouring double) module flip of a valid symbol of every size; garbage contents under a valid finder. \
Oracle: returns a value or an error - no panic (catch_unwind), no hang (watchdog). All cases are distinct by construction; non-trivial = the input is rejected with an error by at least one entry point (a genuinely malformed input that reached the error paths). Build profile of this pass: {}.",
            ctx.tier.pick(5, 6), ctx.tier.pick(3, 4), if cfg!(debug_assertions) { "release + debug-assertions + overflow-checks" } else { "plain release" }),
        "exhaustive": true,
    });
    let mut code_child = 0;
    if !is_child() {
        let (ev, code) = run_plain_child(ctx);
        cov["plain_profile_pass"] = json!({"evaluations": ev["coverage"]["evaluations"], "violations": ev["violations"], "wall_s": ev["wall_s"]});
        code_child = code;
    }
    let code = ctx.finish("fault_enumeration", cov, vec!["allocation failure and stack overflow are outside the oracle; inputs are bounded in size".into()]);
    code.max(code_child)
}

pub fn replay(case: &Value) -> Result<(), String> {
    let mut st = Stats::default();
    match case["kind"].as_str().unwrap_or("") {
        "stream" => eval_stream(&unhex(case["codewords"].as_str().ok_or("codewords")?), &mut st),
        "rs" => {
            let name = case["size"].as_str().ok_or("size")?;
            let si = (0..48).find(|i| bridge::size_name(*i) == name).ok_or("unknown size")?;
            eval_rs(si, &unhex(case["received"].as_str().ok_or("received")?), &mut st)
        }
        "pixels" => {
            let px: Vec<bool> = case["bits"].as_str().ok_or("bits")?.chars().map(|c| c == '1').collect();
            eval_pixels(&px, case["width"].as_u64().ok_or("width")? as usize, &mut st)
        }
        "uniform" => {
            let px = vec![case["fill"].as_bool().unwrap_or(false); case["len"].as_u64().ok_or("len")? as usize];
            eval_pixels(&px, case["width"].as_u64().ok_or("width")? as usize, &mut st)
        }
        _ => Err("unknown case kind".into()),
    }
}
