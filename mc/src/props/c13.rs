//! C13 — disabled encodation modes are never used (mode trace of the reference decoder R5).

use serde_json::{json, Value};

use super::common::{self, Enc, Flavor};
use crate::bridge::Cfg;
use crate::explore::{Ctx, Stats};
use crate::gen;
use crate::refmodel::decoder::{self, Mode};

pub fn eval(cfg: &Cfg, input: &[u8], st: &mut Stats) -> Result<(), String> {
    let dm = match common::encode(cfg, input) {
        Enc::Panic(_) => {
            st.count("encode_panicked_see_C11");
            return Ok(());
        }
        Enc::Refused(_) => {
            st.count("refused");
            return Ok(());
        }
        Enc::Ok(dm) => dm,
    };
    st.count("encoded");
    let data = dm.data_codewords();
    let p = match decoder::decode(data) {
        Ok(p) => p,
        Err(_) => {
            // conformance is C02's business; without a parse there is no mode trace
            st.count("reference_decoder_rejects_see_C02");
            return Ok(());
        }
    };
    st.add("decoder_transitions", data.len() as u64);
    st.count("traces_validated");
    for (pos, m) in &p.latches {
        if cfg.modes & m.bit() == 0 {
            return Err(format!("latch to disabled mode {} at codeword {} of {:?}", m.name(), pos, data));
        }
        st.distinct("latch_modes_seen", *m as u64);
    }
    let n = p.carriers.len();
    // characters carried by a disabled mode: only ASCII, only as the tail after the last
    // non-ASCII run, at most 4 characters (end-of-data fallbacks of 5.2.5.2, 5.2.7.2, 5.2.8.2)
    // (the last run may be empty: a latch directly followed by the end-of-symbol rule)
    let last_non_ascii = p.carriers.iter().rposition(|m| *m != Mode::Ascii);
    let last_latch_at = p.latch_body_pos.last().copied();
    for (k, m) in p.carriers.iter().enumerate() {
        if cfg.modes & m.bit() != 0 {
            continue;
        }
        if *m != Mode::Ascii {
            return Err(format!("character {} carried by disabled mode {}", k, m.name()));
        }
        let in_tail = last_latch_at.map_or(false, |l| k >= l) && last_non_ascii.map_or(true, |l| k > l) && n - k <= 4;
        if !in_tail {
            return Err(format!(
                "character {} of {} is ASCII encoded although ASCII is disabled and it is not part of an end-of-data tail; stream {:?}",
                k, n, data
            ));
        }
        // ... and the tail must follow a run for which the standard has an end-of-data fallback:
        // C40/Text/X12 (5.2.5.2: implied unlatch with one codeword left, otherwise unlatch and
        // finish in ASCII) or EDIFACT with one or two codewords left at a group boundary (5.2.8.2).
        // EDIFACT can end anywhere with its own unlatch value and Base256 by its length, so ASCII
        // after an explicit EDIFACT unlatch or after a Base256 run is an ordinary switch to ASCII.
        let form_ok = match p.run_ends.last() {
            Some((Mode::Edifact, e)) => *e == decoder::RunEnd::EdifactTail,
            Some((Mode::Base256, _)) => false,
            _ => true,
        };
        if !form_ok {
            return Err(format!(
                "character {} of {} is ASCII encoded although ASCII is disabled: the run before it ends with {:?}, after which the standard has no end-of-data fallback to ASCII; stream {:?}",
                k, n, p.run_ends.last(), data
            ));
        }
        st.count("ascii_fallback_characters");
        st.max("ascii_tail_len", (n - k) as u64);
    }
    if cfg.modes & 1 == 0 {
        st.count("nontrivial");
    } else if cfg.modes != 0x3f && !p.latches.is_empty() {
        st.count("nontrivial");
    }
    Ok(())
}

pub fn run(ctx: &Ctx) -> i32 {
    let mut parts = common::std_sweep(ctx.tier, Flavor::AllModeSets);
    // header options (ECI designator, FNC1 start, both) with every mode set: an option must not
    // widen the set of enabled modes
    {
        let d = crate::bridge::ListMask::default_list();
        let mut hdr: Vec<Cfg> = Vec::new();
        for modes in gen::modes_all() {
            for (eci, fnc1) in [(Some(3u32), false), (Some(26), false), (Some(16383), true), (None, true)] {
                hdr.push(Cfg { modes, list: d, macros: true, fnc1, eci });
            }
        }
        parts.push(gen::Part { name: "header options x all 63 mode sets: sigma10 <= 4", family: gen::Family::Over { alpha: gen::SIGMA10.to_vec(), min: 0, max: ctx.tier.pick(4, 5) }, cfgs: hdr.clone() });
        parts.push(gen::Part {
            name: "header options x all 63 mode sets: runs of one class, length 1..=24",
            family: gen::Family::Periodic { patterns: vec![b"a".to_vec(), b"A".to_vec(), b"1".to_vec(), b"*".to_vec(), vec![0x80], vec![0xE9, 0xFC], b"~".to_vec(), b"aA".to_vec(), vec![b'a', 0x80], b"A1".to_vec()], lengths: (1..=24).collect() },
            cfgs: hdr.clone(),
        });
        parts.push(gen::Part { name: "header options x all 63 mode sets: macro shapes", family: gen::es_f(1), cfgs: hdr });
    }
    gen::sweep(ctx, &parts, |_pi, input, cfg, w| {
        w.sample(|| cfg.to_json(input));
        w.check(common::case_size(input, cfg), || cfg.to_json(input), |st| eval(cfg, input, st));
    });
    let cov = json!({
        "states": ctx.evaluations(),
        "transitions": ctx.counter("decoder_transitions"),
        "traces_validated_against_impl": ctx.counter("traces_validated"),
        "evaluations": ctx.evaluations(),
        "distinct_nontrivial": ctx.counter("nontrivial"),
        "rule": format!("states = (input, configuration) nodes (all distinct); transitions = codewords consumed by the mode-tracking reference \
decoder; non-trivial = encoded with ASCII disabled, or with a restricted mode set and at least one latch. Sweep: {}", gen::describe_parts(&parts)),
        "exhaustive": true,
    });
    ctx.finish("model_checking", cov, vec![
        "an ASCII tail of at most 4 characters after the last non-ASCII run counts as the standard's end-of-data fallback; whether a shorter tail was possible is C10's business".into(),
    ])
}

pub fn replay(case: &Value) -> Result<(), String> {
    let (cfg, input) = Cfg::from_json(case);
    eval(&cfg, &input, &mut Stats::default())
}
