//! C02 — the encoder output is a conformant ISO/IEC 16022 data codeword stream
//! (independent decoder R5, symbol table R2, pad rule).

use serde_json::{json, Value};

use super::common::{self, Enc, Flavor};
use crate::bridge::{self, Cfg, ListMask, ALL_MODES};
use crate::explore::{Ctx, Stats};
use crate::gen::{self, Family, Part, SIGMA10};
use crate::refmodel::{decoder, symbols::SYMBOLS};

pub fn eval(cfg: &Cfg, input: &[u8], st: &mut Stats) -> Result<(), String> {
    let dm = match common::encode(cfg, input) {
        Enc::Panic(_) => {
            st.count("encode_panicked_see_C11");
            return Ok(());
        }
        Enc::Refused(_) => {
            st.count("refused");
            return Ok(());
        }
        Enc::Ok(dm) => dm,
    };
    st.count("encoded");
    let i = bridge::ref_index(dm.size);
    if cfg.list.0 >> i & 1 == 0 {
        return Err(format!("symbol {} is not in the supplied list", bridge::size_name(i)));
    }
    let sy = &SYMBOLS[i];
    let data = dm.data_codewords();
    if data.len() != sy.data {
        return Err(format!("{} data codewords, {} has {}", data.len(), sy.name(), sy.data));
    }
    if dm.codewords().len() != sy.total() {
        return Err(format!("{} codewords, {} has {}", dm.codewords().len(), sy.name(), sy.total()));
    }
    if &dm.codewords()[..sy.data] != data {
        return Err("data codewords are not a prefix of the codewords".into());
    }
    let p = decoder::decode(data).map_err(|e| format!("reference decoder rejects the stream {:?}: {}", data, e))?;
    st.add("decoder_transitions", data.len() as u64);
    st.count("traces_validated");
    if p.out != input {
        return Err(format!("reference decoder reads {} from {:?}", crate::explore::hex(&p.out), data));
    }
    if p.fnc1_start != cfg.fnc1 {
        return Err(format!("FNC1 start marker: stream {} requested {}", p.fnc1_start, cfg.fnc1));
    }
    let want_eci: Vec<(usize, u32)> = cfg.eci.map(|e| vec![(0usize, e)]).unwrap_or_default();
    if p.eci != want_eci {
        return Err(format!("ECIs in stream {:?}, requested {:?}", p.eci, want_eci));
    }
    // pads: R5 verified 129 + the 253-state sequence up to the end when pad_start is set; if
    // there is no pad the data must end exactly at the capacity (R5 consumed everything).
    common::note_parse(st, &p);
    if common::nontrivial_parse(&p) {
        st.count("nontrivial");
    }
    match p.pad_start {
        Some(ps) => st.add("pad_positions_checked", (data.len() - ps) as u64),
        None => st.count("ends_exactly_at_capacity"),
    }
    st.distinct("symbols_chosen", i as u64);
    Ok(())
}

pub fn run(ctx: &Ctx) -> i32 {
    let mut parts = common::std_sweep(ctx.tier, Flavor::RoundTrip);
    // ECI header variants on a sub-sweep
    let mut eci_cfgs = Vec::new();
    for e in [3u32, 26, 126, 127, 16382, 16383, 999_999] {
        for modes in [ALL_MODES, 1, common::NO_ASCII] {
            for fnc1 in [false, true] {
                eci_cfgs.push(Cfg { modes, list: ListMask::default_list(), macros: true, fnc1, eci: Some(e) });
            }
        }
    }
    parts.push(Part { name: "ECI headers", family: Family::Over { alpha: SIGMA10.to_vec(), min: 0, max: ctx.tier.pick(3, 4) }, cfgs: eci_cfgs.clone() });
    parts.push(Part { name: "ECI headers x macro shapes", family: gen::es_f(1), cfgs: eci_cfgs });
    gen::sweep(ctx, &parts, |_pi, input, cfg, w| {
        w.sample(|| cfg.to_json(input));
        w.check(common::case_size(input, cfg), || cfg.to_json(input), |st| eval(cfg, input, st));
    });
    let cov = json!({
        "states": ctx.evaluations(),
        "transitions": ctx.counter("decoder_transitions"),
        "traces_validated_against_impl": ctx.counter("traces_validated"),
        "evaluations": ctx.evaluations(),
        "distinct_nontrivial": ctx.counter("nontrivial"),
        "rule": format!("states = (input, configuration) nodes explored (all distinct); transitions = codeword positions of produced streams \
consumed by the reference decoder automaton R5; every produced stream is a trace replayed against the model. Sweep: {}", gen::describe_parts(&parts)),
        "exhaustive": true,
    });
    ctx.finish("model_checking", cov, vec![
        "R5 (reference decoder) and R2 (symbol table) are typed in from ISO/IEC 16022 / 21471; their self-checks run at start-up".into(),
        "R5 tolerates a dangling shift at the end of a C40/Text run and an explicit unlatch in the last codeword (DESIGN.md §8)".into(),
    ])
}

pub fn replay(case: &Value) -> Result<(), String> {
    let (cfg, input) = Cfg::from_json(case);
    eval(&cfg, &input, &mut Stats::default())
}
