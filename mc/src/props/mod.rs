pub mod common;
pub mod c01;
pub mod c02;
pub mod c13;

use crate::explore::Ctx;
use serde_json::Value;

pub const ALL: [&str; 3] = ["C01", "C02", "C13"];

pub fn run(ctx: &Ctx) -> i32 {
    match ctx.prop {
        "C01" => c01::run(ctx),
        "C02" => c02::run(ctx),
        "C13" => c13::run(ctx),
        other => {
            eprintln!("ENGINE-ERROR unknown property {}", other);
            2
        }
    }
}

pub fn replay(prop: &str, case: &Value) -> Result<(), String> {
    match prop {
        "C01" => c01::replay(case),
        "C02" => c02::replay(case),
        "C13" => c13::replay(case),
        other => Err(format!("unknown property {}", other)),
    }
}
