pub mod common;
pub mod c01;
pub mod c02;
pub mod c03;
pub mod c04;
pub mod c05;
pub mod c06;
pub mod c07;
pub mod c08;
pub mod c09;
pub mod c10;
pub mod c11;
pub mod c12;
pub mod c13;
pub mod c14;
pub mod c15;
pub mod c16;
pub mod c17;
pub mod c18;
pub mod c19;
pub mod rs;

use crate::explore::Ctx;
use serde_json::Value;

macro_rules! props {
    ($($id:literal => $m:ident),* $(,)?) => {
        pub const ALL: &[&str] = &[$($id),*];
        pub fn run(ctx: &Ctx) -> i32 {
            match ctx.prop {
                $($id => $m::run(ctx),)*
                other => { eprintln!("ENGINE-ERROR unknown property {}", other); 2 }
            }
        }
        pub fn replay(prop: &str, case: &Value) -> Result<(), String> {
            match prop {
                $($id => $m::replay(case),)*
                other => Err(format!("unknown property {}", other)),
            }
        }
    };
}

props! {
    "C01" => c01,
    "C02" => c02,
    "C03" => c03,
    "C04" => c04,
    "C05" => c05,
    "C06" => c06,
    "C07" => c07,
    "C08" => c08,
    "C09" => c09,
    "C10" => c10,
    "C11" => c11,
    "C12" => c12,
    "C13" => c13,
    "C14" => c14,
    "C15" => c15,
    "C16" => c16,
    "C17" => c17,
    "C18" => c18,
    "C19" => c19,
}
