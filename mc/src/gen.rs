//! Generators: input families (ES-A .. ES-F), configuration sets (CFG-modes, CFG-lists).
//! Every family is an indexable finite sequence, so a chunk of the exploration is an index
//! range and the explored set does not depend on scheduling. (DESIGN.md §5)

use crate::bridge::{Cfg, ListMask, ALL_MODES};
use crate::refmodel::symbols::SYMBOLS;

/// Byte-class alphabet, simplest first.
pub const SIGMA10: [u8; 10] = [b'A', b'1', b'a', b' ', b'*', 0x0D, b'~', b'^', 0x80, 0xE1];
pub const SIGMA8: [u8; 8] = [b'A', b'1', b'a', b' ', b'*', 0x0D, b'~', b'^'];

#[derive(Clone, Debug)]
pub enum Family {
    /// all byte strings of length min..=max over the full alphabet
    Full { min: usize, max: usize },
    /// all strings over `alpha` of length min..=max
    Over { alpha: Vec<u8>, min: usize, max: usize },
    /// explicit list
    List(Vec<Vec<u8>>),
    /// prefix + every tail over `alpha` of length 0..=max, for every prefix
    Tails { prefixes: Vec<Vec<u8>>, alpha: Vec<u8>, max: usize },
    /// every pattern repeated (cyclically) to every length
    Periodic { patterns: Vec<Vec<u8>>, lengths: Vec<usize> },
}

fn count_over(k: u64, min: usize, max: usize) -> u64 {
    (min..=max).map(|l| k.pow(l as u32)).sum()
}

fn nth_over(alpha: &[u8], min: usize, max: usize, mut i: u64, out: &mut Vec<u8>) {
    let k = alpha.len() as u64;
    for l in min..=max {
        let n = k.pow(l as u32);
        if i < n {
            for _ in 0..l {
                out.push(alpha[(i % k) as usize]);
                i /= k;
            }
            return;
        }
        i -= n;
    }
    panic!("index out of range");
}

impl Family {
    /// Explicit list without duplicates (first occurrence kept).
    pub fn list(v: Vec<Vec<u8>>) -> Family {
        let mut seen = std::collections::HashSet::new();
        Family::List(v.into_iter().filter(|x| seen.insert(x.clone())).collect())
    }

    pub fn size(&self) -> u64 {
        match self {
            Family::Full { min, max } => count_over(256, *min, *max),
            Family::Over { alpha, min, max } => count_over(alpha.len() as u64, *min, *max),
            Family::List(l) => l.len() as u64,
            Family::Tails { prefixes, alpha, max } => prefixes.len() as u64 * count_over(alpha.len() as u64, 0, *max),
            Family::Periodic { patterns, lengths } => (patterns.len() * lengths.len()) as u64,
        }
    }

    pub fn get(&self, i: u64, out: &mut Vec<u8>) {
        out.clear();
        match self {
            Family::Full { min, max } => {
                let mut i = i;
                for l in *min..=*max {
                    let n = 256u64.pow(l as u32);
                    if i < n {
                        for _ in 0..l {
                            out.push((i % 256) as u8);
                            i /= 256;
                        }
                        return;
                    }
                    i -= n;
                }
                panic!("index out of range");
            }
            Family::Over { alpha, min, max } => nth_over(alpha, *min, *max, i, out),
            Family::List(l) => out.extend_from_slice(&l[i as usize]),
            Family::Tails { prefixes, alpha, max } => {
                let per = count_over(alpha.len() as u64, 0, *max);
                out.extend_from_slice(&prefixes[(i / per) as usize]);
                nth_over(alpha, 0, *max, i % per, out);
            }
            Family::Periodic { patterns, lengths } => {
                let p = &patterns[i as usize / lengths.len()];
                let l = lengths[i as usize % lengths.len()];
                out.extend(p.iter().cycle().take(l));
            }
        }
    }

    /// Is `s` one of the inputs of this family?
    pub fn contains(&self, s: &[u8]) -> bool {
        match self {
            Family::Full { min, max } => (*min..=*max).contains(&s.len()),
            Family::Over { alpha, min, max } => (*min..=*max).contains(&s.len()) && s.iter().all(|c| alpha.contains(c)),
            Family::List(l) => l.iter().any(|x| x == s),
            Family::Tails { prefixes, alpha, max } => prefixes.iter().any(|p| {
                s.len() >= p.len() && s.len() - p.len() <= *max && s.starts_with(p) && s[p.len()..].iter().all(|c| alpha.contains(c))
            }),
            Family::Periodic { patterns, lengths } => {
                lengths.contains(&s.len()) && patterns.iter().any(|p| s.iter().zip(p.iter().cycle()).all(|(a, b)| a == b))
            }
        }
    }

    pub fn describe(&self) -> String {
        match self {
            Family::Full { min, max } => format!("all byte strings of length {}..={} ({})", min, max, self.size()),
            Family::Over { alpha, min, max } => {
                format!("all strings over a {}-letter class alphabet of length {}..={} ({})", alpha.len(), min, max, self.size())
            }
            Family::List(l) => format!("explicit list of {} inputs", l.len()),
            Family::Tails { prefixes, alpha, max } => {
                format!("{} prefixes x all tails over {} letters of length 0..={} ({})", prefixes.len(), alpha.len(), max, self.size())
            }
            Family::Periodic { patterns, lengths } => {
                format!("{} periodic patterns x {} lengths ({})", patterns.len(), lengths.len(), self.size())
            }
        }
    }
}

// ---------------------------------------------------------------------------------------------
// named families
// ---------------------------------------------------------------------------------------------

/// ES-C: for each mode a context that makes staying in the mode attractive, and every byte x
/// placed in the middle, at the end and second-to-last.
pub fn es_c(pairs: bool) -> Family {
    let contexts: Vec<Vec<u8>> = vec![
        b"AAAAAA".to_vec(),
        b"aaaaaa".to_vec(),
        b"*A*A*A".to_vec(),
        vec![0x9B; 6],
        b"12345678".to_vec(),
        b"A>A>A>".to_vec(),
    ];
    let mut out = Vec::new();
    for c in &contexts {
        let mid = c.len() / 2;
        for x in 0..=255u8 {
            let ys: Vec<Option<u8>> = if pairs { (0..=255u8).step_by(5).map(Some).collect() } else { vec![None] };
            for y in ys {
                let ins: Vec<u8> = match y {
                    None => vec![x],
                    Some(y) => vec![x, y],
                };
                // middle
                let mut v = c[..mid].to_vec();
                v.extend(&ins);
                v.extend(&c[mid..]);
                out.push(v);
                // end
                let mut v = c.clone();
                v.extend(&ins);
                out.push(v);
                // second to last
                let mut v = c[..c.len() - 1].to_vec();
                v.extend(&ins);
                v.push(c[c.len() - 1]);
                out.push(v);
            }
        }
    }
    Family::list(out)
}

/// ES-D: fillers that park the encoder at every residue of every small capacity, followed by
/// every tail over `alpha` of length <= tail_max.
pub fn es_d(k_max: usize, alpha: &[u8], tail_max: usize) -> Family {
    let units: Vec<Vec<u8>> = vec![b"12".to_vec(), b"A".to_vec(), b"a".to_vec(), b"*A^ ".to_vec(), vec![0x80]];
    let mut prefixes = Vec::new();
    for u in &units {
        for k in 0..=k_max {
            if k == 0 && !prefixes.is_empty() {
                continue; // the empty prefix only once
            }
            let p: Vec<u8> = if u.len() == 4 { u.iter().cycle().take(k).cloned().collect() } else { u.iter().cycle().take(k * u.len()).cloned().collect() };
            prefixes.push(p);
        }
    }
    Family::Tails { prefixes, alpha: alpha.to_vec(), max: tail_max }
}

pub fn es_e_patterns() -> Vec<Vec<u8>> {
    vec![
        b"A".to_vec(),
        b"a".to_vec(),
        b"1".to_vec(),
        b"*".to_vec(),
        vec![0x80],
        b"A1".to_vec(),
        vec![b'a', 0x80],
        b"*A1 ".to_vec(),
        vec![0xE1, b'1'],
        // about one codeword per character in every mode: many plans stay competitive for long
        vec![b'a', b'9', b'a', b'1', b' ', 0xC8],
        b"a!A~".to_vec(),
        // a switch about every ten bytes: plans with hundreds of recorded switches
        {
            let mut v = b"ABCDEFGHIJKL".to_vec();
            v.extend([0xE1u8; 8]);
            v.extend(b"abcdefghijkl");
            v.extend(b"!?#$%&*+;");
            v
        },
    ]
}

/// ES-E, sparse variant: short lengths, the capacity boundaries and every 301st length.
pub fn es_e_sparse() -> Family {
    let mut l: Vec<usize> = (0..=40).collect();
    for r in [248..=252usize, 1553..=1559, 3114..=3119] {
        l.extend(r);
    }
    for m in (500..=1500).step_by(250) {
        l.extend(m - 1..=m);
    }
    l.extend((41..3100).step_by(301));
    l.sort_unstable();
    l.dedup();
    Family::Periodic { patterns: es_e_patterns(), lengths: l }
}

/// ES-E: length sweep.
pub fn es_e(thorough: bool) -> Family {
    let lengths: Vec<usize> = if thorough {
        (0..=3117).collect()
    } else {
        let mut l: Vec<usize> = (0..=320).collect();
        for r in [248..=252usize, 775..=785, 1540..=1570, 2320..=2340, 3100..=3125] {
            l.extend(r);
        }
        // the Base256 length field works modulo 250: both sides of every multiple of 250
        for m in (250..=3000).step_by(250) {
            l.extend(m - 2..=m + 2);
        }
        l.extend((321..3100).step_by(37));
        l.sort_unstable();
        l.dedup();
        l
    };
    Family::Periodic { patterns: es_e_patterns(), lengths }
}

/// ES-I: multi-run inputs: runs of characters native to different modes, every combination of
/// two runs with lengths 0..=k2 and of three runs with lengths 1..=k3. Mode switches in the
/// middle of the data (with every phase of the triple / quadruple packing) live here.
pub fn es_i(k2: usize, k3: usize) -> Family {
    let units: Vec<&[u8]> = vec![b"A", b"a", b"*A^ ", &[0x80], b"1", b"A>*", b"~"];
    let run = |u: &[u8], k: usize| -> Vec<u8> { u.iter().cycle().take(k).cloned().collect() };
    let mut out = Vec::new();
    for (i, u1) in units.iter().enumerate() {
        for (j, u2) in units.iter().enumerate() {
            if i == j {
                continue;
            }
            for a in 0..=k2 {
                for b in 1..=k2 {
                    let mut v = run(u1, a);
                    v.extend(run(u2, b));
                    out.push(v);
                }
            }
            for (l, u3) in units.iter().enumerate() {
                if l == j {
                    continue;
                }
                for a in 1..=k3 {
                    for b in 1..=k3 {
                        for c in 1..=k3 {
                            let mut v = run(u1, a);
                            v.extend(run(u2, b));
                            v.extend(run(u3, c));
                            out.push(v);
                        }
                    }
                }
            }
        }
    }
    Family::list(out)
}

pub const MACRO05: &[u8] = b"[)>\x1e05\x1d";
pub const MACRO06: &[u8] = b"[)>\x1e06\x1d";
pub const MACRO_TRAIL: &[u8] = b"\x1e\x04";

/// ES-F: macro shaped inputs: heads x bodies x trailers.
pub fn es_f(body_max: usize) -> Family {
    let mut heads: Vec<Vec<u8>> = vec![vec![], MACRO05.to_vec(), MACRO06.to_vec(), b"[)>\x1e07\x1d".to_vec()];
    for i in 0..7 {
        let mut h = MACRO05.to_vec();
        h[i] ^= 1; // single byte corruption
        heads.push(h);
        if i > 0 {
            heads.push(MACRO05[..i].to_vec()); // proper prefix
        }
    }
    heads.push(MACRO06[..6].to_vec());
    let trailers: Vec<Vec<u8>> = vec![vec![], MACRO_TRAIL.to_vec(), vec![0x1e], vec![0x04], vec![0x1e, 0x04, 0x04], vec![0x04, 0x1e]];
    let alpha = [b'A', b'a', b'1', b'*', 0x80, 0x1e, 0x04, b'~'];
    let bodies = Family::Over { alpha: alpha.to_vec(), min: 0, max: body_max };
    let mut out = Vec::new();
    let mut b = Vec::new();
    for h in &heads {
        for t in &trailers {
            for i in 0..bodies.size() {
                bodies.get(i, &mut b);
                let mut v = h.clone();
                v.extend(&b);
                v.extend(t);
                out.push(v);
            }
        }
    }
    Family::list(out)
}

/// ES-F2: macro envelopes as token sequences: every sequence of up to `max_tokens` tokens from
/// {header 05, header 06, trailer, RS, EOT, GS, "[)>", "A", "1", 0x80}. Nested and repeated
/// envelopes, headers inside bodies, trailers in front live here.
pub fn es_f_tokens(max_tokens: usize) -> Family {
    let tokens: Vec<&[u8]> = vec![MACRO05, MACRO06, MACRO_TRAIL, &[0x1e], &[0x04], &[0x1d], b"[)>", b"A", b"1", &[0x80]];
    let idx: Vec<u8> = (0..tokens.len() as u8).collect();
    let fam = Family::Over { alpha: idx, min: 0, max: max_tokens };
    let mut out = Vec::new();
    let mut ix = Vec::new();
    for i in 0..fam.size() {
        fam.get(i, &mut ix);
        let mut v = Vec::new();
        for t in &ix {
            v.extend_from_slice(tokens[*t as usize]);
        }
        out.push(v);
    }
    Family::list(out)
}

/// ES-K: capacity boundaries of one symbol: for a symbol with c data codewords, fills of one
/// character class at the lengths around which their densest encoding needs c codewords
/// (digits: 2 per codeword; C40/Text/X12 base characters: 3 per 2; EDIFACT: 4 per 3; bytes: 1).
pub fn es_k(c: usize) -> Family {
    let mut out: Vec<Vec<u8>> = Vec::new();
    let mut push = |ch: &[u8], lo: usize, hi: usize| {
        for n in lo..=hi {
            out.push(ch.iter().cycle().take(n).cloned().collect());
        }
    };
    push(b"1", (2 * c).saturating_sub(3), 2 * c + 1);
    let c40 = (c.saturating_sub(1)) * 3 / 2;
    push(b"A", c40.saturating_sub(3), c40 + 3);
    push(b"a", c40.saturating_sub(3), c40 + 3);
    push(b"A>*", c40.saturating_sub(3), c40 + 3);
    let edi = (c.saturating_sub(1)) * 4 / 3;
    push(b"*A^ ", edi.saturating_sub(3), edi + 3);
    push(&[0x80], c.saturating_sub(4), c);
    push(b"~", c.saturating_sub(2), c + 1);
    Family::list(out)
}

/// ES-Q: a Base256 run whose last codeword lands on (or next to) the capacity of a real symbol,
/// followed by more data: for every capacity c, an optional short prefix, a run of high bytes of
/// length c - 2 - p - 4 ..= c - 2 - p + 1 (p = codewords of the prefix; one or two length codewords),
/// and a tail of another class.
pub fn es_q() -> Family {
    let mut out = Vec::new();
    let prefixes: [(&[u8], usize); 3] = [(b"", 0), (b"12", 1), (b"A", 1)];
    let tails: Vec<&[u8]> = vec![b"1", b"12", b"123456", b"ABCDEF", b"abc", b"A"];
    for c in capacities() {
        if c < 8 {
            continue;
        }
        for (pre, p) in prefixes {
            for d in 0..=5usize {
                let l = match (c + 1).checked_sub(2 + p + d) {
                    Some(l) if l >= 1 => l,
                    _ => continue,
                };
                for t in &tails {
                    let mut v = pre.to_vec();
                    v.extend((0..l).map(|i| 0x80u8 | (i as u8).wrapping_mul(37)));
                    v.extend_from_slice(t);
                    out.push(v);
                }
            }
        }
    }
    Family::list(out)
}

/// ES-R: long mixed inputs for which one Base256 field to the end of the symbol fills a real
/// capacity exactly or nearly (n = c - 2 - d, d = 0..2): a filler of one-codeword ASCII characters
/// that no dense mode compresses (a ! A ~) with h = 2..4 isolated bytes >= 0x80 (first, middle,
/// last position ...), so that the all-ASCII rival costs n + h and several plans tie around c.
pub fn es_r() -> Family {
    let mut out = Vec::new();
    for c in capacities() {
        if c < 30 {
            continue;
        }
        for d in 0..=2usize {
            let n = c - 2 - d;
            for h in 2..=4usize {
                for last_high in [true, false] {
                    let mut v: Vec<u8> = b"a!A~".iter().cycle().take(n).cloned().collect();
                    for q in 0..h {
                        // spread over the input; the last one at the very end or three before it
                        let pos = if q + 1 == h { if last_high { n - 1 } else { n - 4 } } else { q * (n - 1) / (h - 1).max(1) };
                        v[pos] = 0x80 | (q as u8 * 0x21 + 5);
                    }
                    out.push(v);
                }
            }
        }
    }
    Family::list(out)
}

/// ES-T: a long run of one class whose length straddles 255/256 and 511/512 (where narrow counters
/// saturate or wrap) followed by a short tail of another class.
pub fn es_t() -> Family {
    let mut out = Vec::new();
    let classes: [&[u8]; 5] = [b"1", b"A", b"a", b"*", &[0x80]];
    let tails: [&[u8]; 9] = [b"A", b"AB", b"ABCDE", b"a", b"abc", b"1", b"12", b"123", &[0x80]];
    for c in classes {
        for l in (253usize..=258).chain(509..=514) {
            for t in tails {
                if t[0] == c[0] {
                    continue;
                }
                let mut v: Vec<u8> = c.iter().cycle().take(l).cloned().collect();
                v.extend_from_slice(t);
                out.push(v);
            }
        }
    }
    Family::list(out)
}

/// ES-U: every byte value, then an EDIFACT-favouring run of 4m characters (m = 1..=14), then a short
/// tail that EDIFACT cannot carry. The EDIFACT end-of-data rule (one or two codewords left: ASCII
/// without unlatch) makes planner and encoder agree on the exact codeword count at the end, so any
/// byte whose cost the planner books differently from what the encoder writes shows up here.
pub fn es_u() -> Family {
    let mut out = Vec::new();
    let tails: [&[u8]; 4] = [b"a", b"ab", &[0x80], b"a1"];
    for b in 0..=255u8 {
        for m in 1..=14usize {
            for t in tails {
                let mut v = vec![b];
                v.extend(b".A,B".iter().cycle().take(4 * m));
                v.extend_from_slice(t);
                out.push(v);
            }
        }
    }
    Family::list(out)
}

/// ES-V: a run of k = 1..=24 characters native to one mode (left at every phase of its packing),
/// whole EDIFACT groups (4m characters, m = 1..=6) and a short tail EDIFACT cannot carry: the
/// generalisation of ES-U from one byte to a run.
pub fn es_v() -> Family {
    let mut out = Vec::new();
    let classes: [&[u8]; 6] = [b"a", b"A", b"1", b"*>\r", &[0x80], b"aB"];
    let tails: [&[u8]; 3] = [b"z", b"ab", &[0x80]];
    for c in classes {
        for k in 1..=24usize {
            for m in 1..=6usize {
                for t in tails {
                    let mut v: Vec<u8> = c.iter().cycle().take(k).cloned().collect();
                    v.extend(b"/./&".iter().cycle().take(4 * m));
                    v.extend_from_slice(t);
                    out.push(v);
                }
            }
        }
    }
    Family::list(out)
}

/// ES-J2: a long Base256 / C40 run at a length-field boundary, an EDIFACT-favouring middle part
/// of every length 0..=40 and a short suffix of another class.
pub fn es_j2() -> Family {
    let mut out = Vec::new();
    let mut prefixes: Vec<Vec<u8>> = Vec::new();
    for l in [249usize, 250, 251] {
        prefixes.push(vec![0x80; l]);
        let mut p = b"1234".to_vec();
        p.extend(vec![0xB7u8; l]);
        prefixes.push(p);
    }
    let suffixes: Vec<&[u8]> = vec![b"", b"a", b"ab", &[0x80], b"1", b"12"];
    for p in &prefixes {
        for j in 0..=40 {
            for sfx in &suffixes {
                let mut v = p.clone();
                v.extend(b"<?@[]^;:".iter().cycle().take(j));
                v.extend_from_slice(sfx);
                out.push(v);
            }
        }
    }
    Family::list(out)
}

/// ES-N: islands: m repetitions of (a run of k characters native to one dense mode + one character
/// that mode cannot carry), then a final run: many short ASCII islands between long runs.
pub fn es_n(max_islands: usize) -> Family {
    let runs: Vec<&[u8]> = vec![b"*\r>", b"*A^ ", b"A", b"a", b"1"];
    let islands: Vec<&[u8]> = vec![b"a", &[0x80], b"~", b"\n", b"A"];
    let mut out = Vec::new();
    for r in &runs {
        for isl in &islands {
            if r == isl {
                continue;
            }
            for k in [3usize, 6, 9, 12] {
                for m in 1..=max_islands {
                    let mut v = Vec::new();
                    for _ in 0..m {
                        v.extend(r.iter().cycle().take(k));
                        v.extend_from_slice(isl);
                    }
                    v.extend(r.iter().cycle().take(k));
                    out.push(v);
                }
            }
        }
    }
    Family::list(out)
}

/// ES-P: run(k1) + island + run(k2) + tail: a dense run of every length 1..=12, one character the
/// mode cannot carry, a second run of every length 1..=16 and a short foreign tail. The packing
/// phase at which the first run is left and the space left at the end vary independently.
pub fn es_p() -> Family {
    let runs: Vec<&[u8]> = vec![b"*A^ ", b".A.C1.3", b"*\r>", b"A", b"a"];
    let islands: Vec<&[u8]> = vec![&[0x80], b"a", b"~", b"A"];
    let tails: Vec<&[u8]> = vec![b"", b"a", b"ab", &[0x80], b"1", b"{"];
    let mut out = Vec::new();
    for r in &runs {
        for isl in &islands {
            if r == isl {
                continue;
            }
            for k1 in 1..=12usize {
                for k2 in 1..=16usize {
                    for t in &tails {
                        let mut v: Vec<u8> = r.iter().cycle().take(k1).cloned().collect();
                        v.extend_from_slice(isl);
                        v.extend(r.iter().cycle().take(k2));
                        v.extend_from_slice(t);
                        out.push(v);
                    }
                }
            }
        }
    }
    Family::list(out)
}

/// Inputs named in DESIGN.md (witnesses of the defects, golden inputs of the repository's tests).
pub fn named_inputs() -> Vec<Vec<u8>> {
    let mut v: Vec<Vec<u8>> = vec![
        b"ABCDEFGH12345678".to_vec(),
        b"12345".to_vec(),
        b"[)>\x1e05\x1dHELLO".to_vec(),
        b"[)>\x1e05\x1d".to_vec(),
        b"[)>\x1e05\x1dAaaaaaaa\x1e\x04".to_vec(),
        vec![65, 97, 65],
        b"Hello, World!".to_vec(),
        b"A1B2C3D4E5F6G7H8I9J0K1L2".to_vec(),
        b"AIMAIMAIM".to_vec(),
        b"AIMAIMAIMAIMAIMAIM".to_vec(),
        b"aimaimaim'".to_vec(),
        b"ABC>ABC123>AB".to_vec(),
        b".A.C1.3.DATA.123DATA.123DATA".to_vec(),
        b".A.C1.3.X.X2..".to_vec(),
        b"\xab\xe4\xf6\xfc\xe9\xbb".to_vec(),
        b"01034531200000111719112510ABCD1234\x1D2110".to_vec(),
        b"AAAAAAA\ra".to_vec(),
        b"AAAAAAAaa".to_vec(),
        vec![0x80],
        b"DEABCFG".to_vec(),
        b"123456".to_vec(),
        b"\xFAaaa".to_vec(),
    ];
    v.push(vec![b'1'; 2000]);
    v.push(vec![b'A'; 2335]);
    v
}

// ---------------------------------------------------------------------------------------------
// configurations
// ---------------------------------------------------------------------------------------------

/// CFG-modes, quick set: all; all-but-one (6); {ASCII}; {ASCII, M} (5); {M} (5) = 18 sets.
pub fn modes_quick() -> Vec<u8> {
    let mut v = vec![ALL_MODES];
    for i in 0..6 {
        v.push(ALL_MODES & !(1 << i));
    }
    v.push(1);
    for i in 1..6 {
        v.push(1 | 1 << i);
    }
    for i in 1..6 {
        v.push(1 << i);
    }
    v
}

/// all 63 non-empty mode sets
pub fn modes_all() -> Vec<u8> {
    (1..64).collect()
}

/// the 32 mode sets which contain ASCII
pub fn modes_with_ascii() -> Vec<u8> {
    (1..64).filter(|m| m & 1 == 1).collect()
}

pub fn idx(rows: usize, cols: usize) -> usize {
    crate::refmodel::symbols::by_dims(rows, cols).unwrap()
}

/// CFG-lists, quick set.
pub fn lists_quick() -> Vec<ListMask> {
    vec![
        ListMask::default_list(),
        ListMask::all(),
        ListMask::single(idx(10, 10)),
        ListMask::single(idx(12, 12)),
        ListMask::single(idx(8, 18)),
        ListMask::single(idx(14, 14)),
        ListMask::single(idx(8, 32)),
        ListMask::single(idx(16, 16)),
        ListMask::of(&[idx(10, 10), idx(14, 14)]),
        ListMask::of(&[idx(12, 12), idx(26, 26)]),
    ]
}

/// CFG-lists, thorough set: all non-empty subsets of the seven smallest symbols, default, all,
/// every single size, and a few sparse lists.
pub fn lists_thorough() -> Vec<ListMask> {
    let small = [idx(10, 10), idx(12, 12), idx(8, 18), idx(14, 14), idx(8, 32), idx(16, 16), idx(12, 26)];
    let mut v = vec![ListMask::default_list(), ListMask::all()];
    for m in 1u32..128 {
        let ids: Vec<usize> = (0..7).filter(|b| m >> b & 1 == 1).map(|b| small[b]).collect();
        v.push(ListMask::of(&ids));
    }
    for i in 0..48 {
        v.push(ListMask::single(i));
    }
    v.push(ListMask::of(&[idx(10, 10), idx(144, 144)]));
    v.push(ListMask::of(&[idx(12, 12), idx(26, 26)]));
    v.push(ListMask::of(&[idx(8, 18), idx(8, 32), idx(8, 48), idx(8, 64)]));
    v.push(ListMask::of(&[idx(18, 18), idx(8, 48)]));
    v.push(ListMask::of(&[idx(20, 20), idx(12, 36)]));
    v.push(ListMask::of(&[idx(14, 14), idx(16, 16), idx(18, 18), idx(20, 20)]));
    v.push(ListMask(ListMask::all().0 & !ListMask::default_list().0));
    v.push(ListMask::of(&[idx(10, 10), idx(16, 16), idx(22, 22), idx(32, 32), idx(52, 52)]));
    v.sort_by_key(|l| l.0);
    v.dedup();
    v
}

pub fn cfgs(modes: &[u8], lists: &[ListMask], macros: &[bool], fnc1: &[bool]) -> Vec<Cfg> {
    let mut v = Vec::new();
    for l in lists {
        for m in modes {
            for ma in macros {
                for f in fnc1 {
                    v.push(Cfg { modes: *m, list: *l, macros: *ma, fnc1: *f, eci: None });
                }
            }
        }
    }
    v
}

/// Distinct data capacities of the 48 symbols, ascending.
pub fn capacities() -> Vec<usize> {
    let mut c: Vec<usize> = SYMBOLS.iter().map(|s| s.data).collect();
    c.sort_unstable();
    c.dedup();
    c
}

/// One part of a sweep: a family of inputs, each run under every configuration.
pub struct Part {
    pub name: &'static str,
    pub family: Family,
    pub cfgs: Vec<Cfg>,
}

/// Membership test of a part (for de-duplication across parts); lists are hashed.
struct PartIndex {
    list: Option<std::collections::HashSet<Vec<u8>>>,
    cfgs: std::collections::HashSet<Cfg>,
}

impl PartIndex {
    fn new(p: &Part) -> PartIndex {
        let list = match &p.family {
            Family::List(l) => Some(l.iter().cloned().collect()),
            _ => None,
        };
        PartIndex { list, cfgs: p.cfgs.iter().cloned().collect() }
    }
    fn contains(&self, p: &Part, input: &[u8], cfg: &Cfg) -> bool {
        if !self.cfgs.contains(cfg) {
            return false;
        }
        match &self.list {
            Some(l) => l.contains(input),
            None => p.family.contains(input),
        }
    }
}

impl Part {
    pub fn cases(&self) -> u64 {
        self.family.size() * self.cfgs.len() as u64
    }
}

pub fn describe_parts(parts: &[Part]) -> String {
    parts
        .iter()
        .map(|p| format!("{}: {} x {} configurations = {} cases", p.name, p.family.describe(), p.cfgs.len(), p.cases()))
        .collect::<Vec<_>>()
        .join("; ")
}

/// Run `f(part index, input, cfg, worker)` over all parts in parallel; chunks are index ranges
/// of inputs. A case (input, configuration) that already belongs to an earlier part is skipped,
/// so every evaluated case is distinct.
pub fn sweep<F>(ctx: &crate::explore::Ctx, parts: &[Part], f: F)
where
    F: Fn(usize, &[u8], &Cfg, &mut crate::explore::Worker) + Sync,
{
    // chunk table: (part, first input, last input)
    let mut chunks: Vec<(usize, u64, u64)> = Vec::new();
    for (pi, p) in parts.iter().enumerate() {
        let n = p.family.size();
        // aim at ~2000 cases per chunk
        let per = (2000 / p.cfgs.len().max(1) as u64).clamp(1, 4096);
        let mut a = 0;
        while a < n {
            let b = (a + per).min(n);
            chunks.push((pi, a, b));
            a = b;
        }
    }
    let index: Vec<PartIndex> = parts.iter().map(PartIndex::new).collect();
    ctx.par(chunks.len() as u64, |c, w| {
        let (pi, a, b) = chunks[c as usize];
        let p = &parts[pi];
        w.label(|| format!("part {} inputs {}..{}", p.name, a, b));
        let mut input = Vec::new();
        for i in a..b {
            p.family.get(i, &mut input);
            for cfg in &p.cfgs {
                if (0..pi).any(|q| index[q].contains(&parts[q], &input, cfg)) {
                    w.stats.count("skipped_duplicate_of_earlier_part");
                    continue;
                }
                f(pi, &input, cfg, w);
            }
        }
    });
}
