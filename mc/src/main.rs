//! `mc <ID> <quick|thorough>` runs one check; `mc replay <file>` re-executes one recorded
//! case through the plain public API; `mc selfcheck` runs the self-checks of the reference models.

mod bridge;
mod explore;
mod gen;
mod props;
mod refmodel;

use explore::{guarded, Ctx, Tier};

fn self_checks() -> Result<(), String> {
    refmodel::symbols::self_check().map_err(|e| format!("R2: {}", e))?;
    refmodel::gf::self_check().map_err(|e| format!("R1: {}", e))?;
    refmodel::placement::self_check().map_err(|e| format!("R3: {}", e))?;
    refmodel::render::self_check().map_err(|e| format!("R4: {}", e))?;
    refmodel::decoder::self_check().map_err(|e| format!("R5: {}", e))?;
    refmodel::encoder::self_check().map_err(|e| format!("R6: {}", e))?;
    refmodel::charset::self_check().map_err(|e| format!("R7: {}", e))?;
    refmodel::raster::self_check().map_err(|e| format!("R8: {}", e))?;
    bridge::self_check().map_err(|e| format!("bridge: {}", e))?;
    Ok(())
}

fn main() {
    explore::install_panic_hook();
    let args: Vec<String> = std::env::args().collect();
    if args.len() < 2 {
        eprintln!("usage: mc <ID> <quick|thorough> | mc replay <file> | mc selfcheck");
        std::process::exit(2);
    }
    match guarded(self_checks) {
        Ok(Ok(())) => {}
        Ok(Err(e)) => {
            eprintln!("ENGINE-ERROR reference model self-check failed: {}", e);
            std::process::exit(2);
        }
        Err(p) => {
            eprintln!("ENGINE-ERROR reference model self-check panicked: {}", p);
            std::process::exit(2);
        }
    }
    if args[1] == "selfcheck" {
        println!("self-checks of R1..R8 and the bridge table passed");
        return;
    }
    if args[1] == "replay" {
        let path = args.get(2).expect("replay file");
        let text = std::fs::read_to_string(path).unwrap_or_else(|e| {
            eprintln!("ENGINE-ERROR cannot read {}: {}", path, e);
            std::process::exit(2)
        });
        let v: serde_json::Value = serde_json::from_str(&text).unwrap_or_else(|e| {
            eprintln!("ENGINE-ERROR {}: {}", path, e);
            std::process::exit(2)
        });
        let prop = v["property"].as_str().unwrap_or("").to_string();
        if v["kind"] == "hang" {
            println!("hang artefact: re-run `./check {} thorough` ; batch {} case {}", prop, v["label"], v["case_no"]);
            std::process::exit(1);
        }
        let r = guarded(|| props::replay(&prop, &v["case"]));
        match r {
            Ok(Ok(())) => {
                println!("REPLAY property={} holds for this case", prop);
            }
            Ok(Err(what)) => {
                println!("REPLAY property={} VIOLATED: {}", prop, what);
                std::process::exit(1);
            }
            Err(p) => {
                println!("REPLAY property={} VIOLATED: {}", prop, p);
                std::process::exit(1);
            }
        }
        return;
    }
    let prop: &'static str = match props::ALL.iter().find(|p| **p == args[1]) {
        Some(p) => p,
        None => {
            eprintln!("ENGINE-ERROR unknown property {}", args[1]);
            std::process::exit(2);
        }
    };
    let tier = match args.get(2).map(|s| s.as_str()).or(std::env::var("VERIF_TIER").ok().as_deref().map(|_| "")).unwrap_or("quick") {
        "thorough" => Tier::Thorough,
        "quick" => Tier::Quick,
        _ => match std::env::var("VERIF_TIER").as_deref() {
            Ok("thorough") => Tier::Thorough,
            _ => Tier::Quick,
        },
    };
    let ctx = Ctx::new(prop, tier);
    let code = props::run(&ctx);
    std::process::exit(code);
}
