//! Work-queue explorer: deterministic chunked enumeration on all cores, every case inside
//! catch_unwind, watchdog for hangs, violation collection with replay artefacts, known
//! findings, counters for the evidence file. (DESIGN.md §3.2 – §3.6)

use serde_json::{json, Map, Value};
use std::cell::RefCell;
use std::collections::{BTreeMap, HashMap, HashSet};
use std::panic::{catch_unwind, AssertUnwindSafe};
use std::sync::atomic::{AtomicBool, AtomicU64, Ordering};
use std::sync::Mutex;
use std::time::{Duration, Instant};

#[derive(Clone, Copy, PartialEq, Eq, Debug)]
pub enum Tier {
    Quick,
    Thorough,
}

impl Tier {
    pub fn name(self) -> &'static str {
        match self {
            Tier::Quick => "quick",
            Tier::Thorough => "thorough",
        }
    }
    pub fn pick<T>(self, quick: T, thorough: T) -> T {
        match self {
            Tier::Quick => quick,
            Tier::Thorough => thorough,
        }
    }
}

thread_local! {
    static LAST_PANIC: RefCell<Option<String>> = const { RefCell::new(None) };
}

pub fn install_panic_hook() {
    std::panic::set_hook(Box::new(|info| {
        let loc = info.location().map(|l| format!("{}:{}", l.file(), l.line())).unwrap_or_default();
        let msg = if let Some(s) = info.payload().downcast_ref::<&str>() {
            s.to_string()
        } else if let Some(s) = info.payload().downcast_ref::<String>() {
            s.clone()
        } else {
            "<non-string panic>".to_string()
        };
        let mut msg: String = msg.chars().take(300).collect();
        if msg.contains('\n') {
            msg = msg.replace('\n', " | ");
        }
        LAST_PANIC.with(|p| *p.borrow_mut() = Some(format!("panic at {}: {}", loc, msg)));
    }));
}

/// Run `f`, turning a panic into Err(description).
pub fn guarded<T>(f: impl FnOnce() -> T) -> Result<T, String> {
    match catch_unwind(AssertUnwindSafe(f)) {
        Ok(v) => Ok(v),
        Err(_) => Err(LAST_PANIC.with(|p| p.borrow_mut().take()).unwrap_or_else(|| "panic".into())),
    }
}

/// Per-worker statistics; merged into the context when the worker finishes.
#[derive(Default)]
pub struct Stats {
    pub counters: HashMap<&'static str, u64>,
    pub sets: HashMap<&'static str, HashSet<u64>>,
    pub maxima: HashMap<&'static str, u64>,
}

impl Stats {
    #[inline]
    pub fn count(&mut self, name: &'static str) {
        *self.counters.entry(name).or_insert(0) += 1;
    }
    #[inline]
    pub fn add(&mut self, name: &'static str, n: u64) {
        *self.counters.entry(name).or_insert(0) += n;
    }
    #[inline]
    pub fn distinct(&mut self, name: &'static str, h: u64) {
        self.sets.entry(name).or_default().insert(h);
    }
    #[inline]
    pub fn max(&mut self, name: &'static str, v: u64) {
        let e = self.maxima.entry(name).or_insert(0);
        if v > *e {
            *e = v;
        }
    }
}

pub fn fnv64(bytes: &[u8]) -> u64 {
    let mut h: u64 = 0xcbf29ce484222325;
    for b in bytes {
        h ^= *b as u64;
        h = h.wrapping_mul(0x100000001b3);
    }
    h
}

pub fn hash_mix(a: u64, b: u64) -> u64 {
    let mut h = a ^ b.wrapping_mul(0x9E3779B97F4A7C15);
    h ^= h >> 29;
    h = h.wrapping_mul(0xBF58476D1CE4E5B9);
    h ^ (h >> 32)
}

struct Slot {
    /// milliseconds since context start when the current case began; 0 = idle
    started_ms: AtomicU64,
    case_no: AtomicU64,
    /// kernel thread id of the worker (for its CPU clock in /proc)
    tid: AtomicU64,
    label: Mutex<String>,
}

/// CPU time (user + system) consumed so far by a thread of this process, in milliseconds.
fn thread_cpu_ms(tid: u64) -> Option<u64> {
    let stat = std::fs::read_to_string(format!("/proc/self/task/{}/stat", tid)).ok()?;
    // fields after the command name (which is in parentheses and may contain spaces)
    let rest = &stat[stat.rfind(')')? + 2..];
    let f: Vec<&str> = rest.split(' ').collect();
    // rest starts at field 3 (state); utime is field 14, stime field 15
    let utime: u64 = f.get(11)?.parse().ok()?;
    let stime: u64 = f.get(12)?.parse().ok()?;
    Some((utime + stime) * 10) // USER_HZ = 100
}

fn current_tid() -> u64 {
    std::fs::read_link("/proc/thread-self")
        .ok()
        .and_then(|p| p.file_name().map(|n| n.to_string_lossy().to_string()))
        .and_then(|n| n.parse().ok())
        .unwrap_or(0)
}

#[derive(Clone, Debug)]
pub struct Violation {
    pub desc: Value,
    pub what: String,
    pub size: u64,
}

#[derive(Clone, Debug)]
pub struct Known {
    pub case: Value,
    pub what: String,
}

/// A known finding that covers a listed set of cases (one canonical case per line of a
/// committed file); a violation outside the list is still reported.
#[derive(Clone, Debug)]
pub struct KnownSet {
    pub file: String,
    pub what: String,
    pub cases: HashSet<String>,
}

/// After this many violations no new chunks are started.
pub const EARLY_STOP_VIOLATIONS: u64 = 500;

pub struct Ctx {
    pub prop: &'static str,
    pub tier: Tier,
    pub seed: u64,
    pub threads: usize,
    pub start: Instant,
    pub wall_cap: Option<Duration>,
    pub case_budget: Duration,
    pub verif_dir: String,
    known: Vec<Known>,
    known_sets: Vec<KnownSet>,
    known_set_hits: Vec<AtomicU64>,
    violations: Mutex<Vec<Violation>>,
    viol_count: AtomicU64,
    known_hits: Mutex<BTreeMap<String, u64>>,
    merged: Mutex<Stats>,
    samples: Mutex<Vec<Value>>,
    slots: Vec<Slot>,
    capped: AtomicBool,
    stopped_early: AtomicBool,
    done: AtomicBool,
    evaluations: AtomicU64,
}

pub struct Worker<'a> {
    pub ctx: &'a Ctx,
    pub id: usize,
    pub stats: Stats,
    samples: Vec<Value>,
    ncases: u64,
}

fn canonical(v: &Value) -> String {
    // serde_json's Map is a BTreeMap (no preserve_order feature): keys are sorted
    serde_json::to_string(v).unwrap()
}

pub fn hex(b: &[u8]) -> String {
    let mut s = String::with_capacity(b.len() * 2);
    for x in b {
        s.push_str(&format!("{:02x}", x));
    }
    s
}

pub fn unhex(s: &str) -> Vec<u8> {
    (0..s.len() / 2).map(|i| u8::from_str_radix(&s[2 * i..2 * i + 2], 16).expect("hex")).collect()
}

impl Ctx {
    pub fn new(prop: &'static str, tier: Tier) -> Ctx {
        let seed = std::env::var("VERIF_SEED").ok().and_then(|s| s.parse::<i64>().ok()).unwrap_or(0) as u64;
        let threads = std::env::var("VERIF_THREADS")
            .ok()
            .and_then(|s| s.parse().ok())
            .unwrap_or_else(|| std::thread::available_parallelism().map(|n| n.get()).unwrap_or(8));
        // wall cap: an engine-internal limit; a capped run reports what it completed and says so
        let default_cap = match tier {
            Tier::Quick => 1200,
            Tier::Thorough => 6 * 3600,
        };
        let wall_cap = Some(Duration::from_secs(std::env::var("VERIF_WALL_CAP_S").ok().and_then(|s| s.parse::<u64>().ok()).unwrap_or(default_cap)));
        let verif_dir = std::env::var("VERIF_DIR").unwrap_or_else(|_| "/verif".to_string());
        let (known, known_sets) = load_known(&verif_dir, prop);
        let known_set_hits = known_sets.iter().map(|_| AtomicU64::new(0)).collect();
        Ctx {
            prop,
            tier,
            seed,
            threads,
            start: Instant::now(),
            wall_cap,
            case_budget: Duration::from_secs(std::env::var("VERIF_CASE_BUDGET_S").ok().and_then(|s| s.parse().ok()).unwrap_or(20)),
            verif_dir,
            known,
            known_sets,
            known_set_hits,
            violations: Mutex::new(Vec::new()),
            viol_count: AtomicU64::new(0),
            known_hits: Mutex::new(BTreeMap::new()),
            merged: Mutex::new(Stats::default()),
            samples: Mutex::new(Vec::new()),
            slots: (0..threads + 1)
                .map(|_| Slot { started_ms: AtomicU64::new(0), case_no: AtomicU64::new(0), tid: AtomicU64::new(0), label: Mutex::new(String::new()) })
                .collect(),
            capped: AtomicBool::new(false),
            stopped_early: AtomicBool::new(false),
            done: AtomicBool::new(false),
            evaluations: AtomicU64::new(0),
        }
    }

    pub fn known(&self) -> &[Known] {
        &self.known
    }

    pub fn expired(&self) -> bool {
        match self.wall_cap {
            Some(cap) => self.start.elapsed() > cap,
            None => false,
        }
    }

    pub fn was_capped(&self) -> bool {
        self.capped.load(Ordering::Relaxed)
    }

    fn now_ms(&self) -> u64 {
        self.start.elapsed().as_millis() as u64 + 1
    }

    /// Run `f(chunk, worker)` for every chunk in 0..n_chunks on all threads. The set of chunks is
    /// fixed; only their assignment to threads varies. Stops taking new chunks when the wall cap
    /// has expired (and records that).
    pub fn par<F>(&self, n_chunks: u64, f: F)
    where
        F: Fn(u64, &mut Worker) + Sync,
    {
        let next = AtomicU64::new(0);
        let stop = AtomicBool::new(false);
        std::thread::scope(|sc| {
            // watchdog: a case is a hang when its worker thread has burnt more CPU time than the
            // budget inside that one case. Wall time alone is not trusted: the machine (or the whole
            // VM) may be paused or overloaded; it only triggers after a much longer period.
            let wd = sc.spawn(|| {
                // per slot: (case number first seen, thread CPU ms at that moment, wall ms at that moment)
                let mut seen: Vec<(u64, u64, u64)> = vec![(u64::MAX, 0, 0); self.slots.len()];
                while !stop.load(Ordering::Relaxed) {
                    std::thread::sleep(Duration::from_millis(200));
                    let now = self.now_ms();
                    for (i, slot) in self.slots.iter().enumerate() {
                        let st = slot.started_ms.load(Ordering::Relaxed);
                        let case_no = slot.case_no.load(Ordering::Relaxed);
                        let tid = slot.tid.load(Ordering::Relaxed);
                        if st == 0 || tid == 0 {
                            seen[i].0 = u64::MAX;
                            continue;
                        }
                        let cpu = thread_cpu_ms(tid).unwrap_or(0);
                        if seen[i].0 != case_no {
                            seen[i] = (case_no, cpu, now);
                            continue;
                        }
                        let cpu_in_case = cpu.saturating_sub(seen[i].1);
                        let wall_in_case = now.saturating_sub(seen[i].2);
                        if cpu_in_case > self.case_budget.as_millis() as u64 || wall_in_case > 40 * self.case_budget.as_millis() as u64 {
                            let label = slot.label.lock().unwrap().clone();
                            self.report_hang(i, &label, case_no, cpu_in_case, wall_in_case);
                        }
                    }
                }
            });
            let mut handles = Vec::new();
            for id in 0..self.threads {
                let next = &next;
                let f = &f;
                handles.push(sc.spawn(move || {
                    let mut w = Worker { ctx: self, id, stats: Stats::default(), samples: Vec::new(), ncases: 0 };
                    self.slots[id].tid.store(current_tid(), Ordering::Relaxed);
                    loop {
                        if self.expired() {
                            self.capped.store(true, Ordering::Relaxed);
                            break;
                        }
                        // the verdict is decided: do not grind through the rest of the sweep
                        if self.viol_count.load(Ordering::Relaxed) >= EARLY_STOP_VIOLATIONS && std::env::var("VERIF_DUMP_VIOLATIONS").is_err() {
                            self.stopped_early.store(true, Ordering::Relaxed);
                            break;
                        }
                        let c = next.fetch_add(1, Ordering::Relaxed);
                        if c >= n_chunks {
                            break;
                        }
                        // a panic of the harness itself (outside a guarded case) is an engine error
                        let r = catch_unwind(AssertUnwindSafe(|| f(c, &mut w)));
                        if r.is_err() {
                            let msg = LAST_PANIC.with(|p| p.borrow_mut().take()).unwrap_or_default();
                            eprintln!("ENGINE-ERROR property={} harness panic in chunk {}: {}", self.prop, c, msg);
                            std::process::exit(2);
                        }
                    }
                    w.finish();
                }));
            }
            for h in handles {
                let _ = h.join();
            }
            stop.store(true, Ordering::Relaxed);
            let _ = wd.join();
        });
    }

    /// Run a sequential section as worker (for small enumerations).
    pub fn seq<F>(&self, f: F)
    where
        F: FnOnce(&mut Worker) + Send,
    {
        // run as a one-chunk parallel section so that the watchdog covers it
        let cell = Mutex::new(Some(f));
        self.par(1, |_, w| {
            if let Some(f) = cell.lock().unwrap().take() {
                f(w);
            }
        });
    }

    #[allow(dead_code)]
    fn seq_unwatched<F>(&self, f: F)
    where
        F: FnOnce(&mut Worker),
    {
        let mut w = Worker { ctx: self, id: self.threads, stats: Stats::default(), samples: Vec::new(), ncases: 0 };
        self.slots[self.threads].tid.store(current_tid(), Ordering::Relaxed);
        f(&mut w);
        w.finish();
    }

    fn report_hang(&self, worker: usize, label: &str, case_no: u64, cpu_ms: u64, wall_ms: u64) -> ! {
        let dir = format!("{}/replays", self.verif_dir);
        let _ = std::fs::create_dir_all(&dir);
        let path = format!("{}/{}-hang-{:016x}.json", dir, self.prop, fnv64(label.as_bytes()) ^ case_no);
        let v = json!({"property": self.prop, "kind": "hang", "label": label, "case_no": case_no, "worker": worker,
            "what": format!("a single case consumed {} ms of CPU time ({} ms wall); budget {} s of CPU", cpu_ms, wall_ms, self.case_budget.as_secs())});
        let _ = std::fs::write(&path, serde_json::to_string_pretty(&v).unwrap());
        // the run ends here: leave an evidence file that says so
        let ev = json!({
            "property_id": self.prop,
            "tier": self.tier.name(),
            "seed": self.seed as i64,
            "level": "other",
            "coverage": {
                "explanation": format!("run aborted by the watchdog: one case of batch '{}' consumed {} ms of CPU time (budget {} s); violations collected before that: {}", label, cpu_ms, self.case_budget.as_secs(), self.violation_count()),
                "evaluations": self.evaluations().max(1),
                "exhaustive": false,
            },
            "wall_s": self.start.elapsed().as_secs_f64(),
            "violations": self.violation_count() + 1,
        });
        let evdir = format!("{}/evidence", self.verif_dir);
        let _ = std::fs::create_dir_all(&evdir);
        let evpath = if is_child() { child_evidence_path(&self.verif_dir, self.prop) } else { format!("{}/{}.json", evdir, self.prop) };
        let _ = std::fs::write(&evpath, serde_json::to_string_pretty(&ev).unwrap() + "\n");
        println!("VIOLATION property={} replay={}", self.prop, path);
        println!("  hang: {} (case {} of that batch): {} ms CPU, {} ms wall in one case", label, case_no, cpu_ms, wall_ms);
        std::process::exit(1);
    }

    fn record(&self, desc: Value, what: String, size: u64) {
        let key = canonical(&desc);
        if self.known.iter().any(|k| canonical(&k.case) == key) {
            *self.known_hits.lock().unwrap().entry(key).or_insert(0) += 1;
            return;
        }
        for (k, set) in self.known_sets.iter().enumerate() {
            if set.cases.contains(&key) {
                self.known_set_hits[k].fetch_add(1, Ordering::Relaxed);
                return;
            }
        }
        let n = self.viol_count.fetch_add(1, Ordering::Relaxed);
        if n < 2000 || std::env::var("VERIF_DUMP_VIOLATIONS").is_ok() {
            self.violations.lock().unwrap().push(Violation { desc, what, size });
        }
    }

    pub fn violation_count(&self) -> u64 {
        self.viol_count.load(Ordering::Relaxed)
    }

    pub fn counter(&self, name: &str) -> u64 {
        self.merged.lock().unwrap().counters.iter().find(|(k, _)| **k == name).map(|(_, v)| *v).unwrap_or(0)
    }

    pub fn distinct(&self, name: &str) -> u64 {
        self.merged.lock().unwrap().sets.iter().find(|(k, _)| **k == name).map(|(_, v)| v.len() as u64).unwrap_or(0)
    }

    pub fn maximum(&self, name: &str) -> u64 {
        self.merged.lock().unwrap().maxima.iter().find(|(k, _)| **k == name).map(|(_, v)| *v).unwrap_or(0)
    }

    pub fn evaluations(&self) -> u64 {
        self.evaluations.load(Ordering::Relaxed)
    }

    /// All counters, set sizes and maxima as a JSON object (for the evidence file).
    pub fn stats_json(&self) -> Value {
        let m = self.merged.lock().unwrap();
        let mut o = Map::new();
        let c: BTreeMap<_, _> = m.counters.iter().map(|(k, v)| (k.to_string(), *v)).collect();
        for (k, v) in c {
            o.insert(k, json!(v));
        }
        let s: BTreeMap<_, _> = m.sets.iter().map(|(k, v)| (format!("distinct_{}", k), v.len())).collect();
        for (k, v) in s {
            o.insert(k, json!(v));
        }
        let x: BTreeMap<_, _> = m.maxima.iter().map(|(k, v)| (format!("max_{}", k), *v)).collect();
        for (k, v) in x {
            o.insert(k, json!(v));
        }
        Value::Object(o)
    }

    pub fn samples(&self) -> Vec<Value> {
        self.samples.lock().unwrap().clone()
    }

    /// Write the evidence file, print findings, return the process exit code.
    /// `coverage` must already hold the keys required for `level`.
    pub fn finish(&self, level: &str, mut coverage: Value, assumptions: Vec<String>) -> i32 {
        self.done.store(true, Ordering::Relaxed);
        let wall = self.start.elapsed().as_secs_f64();
        let mut viols = self.violations.lock().unwrap().clone();
        viols.sort_by(|a, b| (a.size, canonical(&a.desc)).cmp(&(b.size, canonical(&b.desc))));
        let total = self.violation_count();
        // known findings
        let hits = self.known_hits.lock().unwrap().clone();
        for k in &self.known {
            let key = canonical(&k.case);
            if hits.contains_key(&key) {
                println!("KNOWN-FINDING: property={} {} case={}", self.prop, k.what, key);
            } else {
                println!("NOTE: listed finding not reproduced in this run (not enumerated or no longer failing): property={} case={}", self.prop, key);
            }
        }
        let mut set_hits_total = 0u64;
        for (k, set) in self.known_sets.iter().enumerate() {
            let hits = self.known_set_hits[k].load(Ordering::Relaxed);
            set_hits_total += hits;
            println!(
                "KNOWN-FINDING: property={} {} ({} of the {} cases listed in {} reproduced in this run)",
                self.prop, set.what, hits, set.cases.len(), set.file
            );
        }
        let cov = coverage.as_object_mut().expect("coverage object");
        cov.insert("known_set_cases_reproduced".into(), json!(set_hits_total));
        if !cov.contains_key("samples") {
            let mut s = self.samples();
            s.truncate(8);
            cov.insert("samples".into(), Value::Array(s));
        }
        cov.insert("counters".into(), self.stats_json());
        cov.insert("capped_by_wall_limit".into(), json!(self.was_capped()));
        let early = self.stopped_early.load(Ordering::Relaxed);
        cov.insert("stopped_early_after_violations".into(), json!(early));
        if self.was_capped() || early {
            cov.insert("exhaustive".into(), json!(false));
        }
        cov.insert("known_findings_reproduced".into(), json!(hits.len()));
        let ev = json!({
            "property_id": self.prop,
            "tier": self.tier.name(),
            "seed": self.seed as i64,
            "level": level,
            "coverage": coverage,
            "assumptions": assumptions,
            "wall_s": (wall * 1000.0).round() / 1000.0,
            "violations": total,
        });
        let evdir = format!("{}/evidence", self.verif_dir);
        if std::fs::create_dir_all(&evdir).is_err() {
            eprintln!("ENGINE-ERROR cannot create {}", evdir);
            return 2;
        }
        let path = if is_child() { child_evidence_path(&self.verif_dir, self.prop) } else { format!("{}/{}.json", evdir, self.prop) };
        if let Err(e) = std::fs::write(&path, serde_json::to_string_pretty(&ev).unwrap() + "\n") {
            eprintln!("ENGINE-ERROR cannot write {}: {}", path, e);
            return 2;
        }
        if total == 0 {
            println!(
                "OK property={} tier={} evaluations={} wall={:.1}s{}",
                self.prop,
                self.tier.name(),
                self.evaluations(),
                wall,
                if self.was_capped() { " (capped by wall limit)" } else { "" }
            );
            return 0;
        }
        let dir = format!("{}/replays", self.verif_dir);
        let _ = std::fs::create_dir_all(&dir);
        // for curating known_findings.jsonl by hand: dump every collected violation as JSON lines
        if let Ok(path) = std::env::var("VERIF_DUMP_VIOLATIONS") {
            let lines: Vec<String> = viols.iter().map(|v| serde_json::to_string(&json!({"property": self.prop, "case": v.desc, "what": v.what})).unwrap()).collect();
            let _ = std::fs::write(&path, lines.join("\n") + "\n");
            let cases: Vec<String> = viols.iter().map(|v| canonical(&v.desc)).collect();
            let _ = std::fs::write(format!("{}.cases", path), cases.join("\n") + "\n");
        }
        for v in viols.iter().take(20) {
            let key = canonical(&v.desc);
            let path = format!("{}/{}-{:016x}.json", dir, self.prop, fnv64(key.as_bytes()));
            let r = json!({"property": self.prop, "kind": "case", "case": v.desc, "what": v.what});
            let _ = std::fs::write(&path, serde_json::to_string_pretty(&r).unwrap() + "\n");
            println!("VIOLATION property={} replay={}", self.prop, path);
            println!("  {} :: {}", key.chars().take(400).collect::<String>(), v.what.chars().take(400).collect::<String>());
        }
        println!("violations: {} (first {} written)", total, viols.len().min(20));
        1
    }
}

impl<'a> Worker<'a> {
    /// Label of the current batch (for the watchdog).
    pub fn label(&mut self, l: impl FnOnce() -> String) {
        let slot = &self.ctx.slots[self.id];
        *slot.label.lock().unwrap() = l();
        slot.case_no.store(0, Ordering::Relaxed);
    }

    /// Evaluate one case. `body` gets the statistics and returns Err(what) on a violation;
    /// panics are violations too. `desc` is only called on a violation; `size` orders
    /// violations (smallest first).
    #[inline]
    pub fn check<D, B>(&mut self, size: u64, desc: D, body: B) -> bool
    where
        D: Fn() -> Value,
        B: Fn(&mut Stats) -> Result<(), String>,
    {
        let slot = &self.ctx.slots[self.id];
        slot.started_ms.store(self.ctx.now_ms(), Ordering::Relaxed);
        slot.case_no.fetch_add(1, Ordering::Relaxed);
        self.ncases += 1;
        if self.ncases == 1 && std::env::var("VERIF_SELFTEST_HANG").is_ok() {
            // self-test of the watchdog: burn CPU inside one case
            let t = Instant::now();
            let mut x = 0u64;
            while t.elapsed() < Duration::from_secs(3600) {
                x = x.wrapping_mul(6364136223846793005).wrapping_add(1);
                std::hint::black_box(x);
            }
        }
        let stats = &mut self.stats;
        let r = match catch_unwind(AssertUnwindSafe(|| body(stats))) {
            Ok(r) => r,
            Err(_) => Err(LAST_PANIC.with(|p| p.borrow_mut().take()).unwrap_or_else(|| "panic".into())),
        };
        let ok = match r {
            Ok(()) => true,
            Err(what) => {
                // determinism: the same case must fail again in the same way
                let mut scratch = Stats::default();
                let again = match catch_unwind(AssertUnwindSafe(|| body(&mut scratch))) {
                    Ok(r) => r,
                    Err(_) => Err(LAST_PANIC.with(|p| p.borrow_mut().take()).unwrap_or_else(|| "panic".into())),
                };
                match again {
                    Err(w2) if w2 == what => {}
                    other => {
                        eprintln!(
                            "ENGINE-ERROR property={} nondeterministic verdict for case {}: first {:?}, then {:?}",
                            self.ctx.prop,
                            canonical(&desc()),
                            what,
                            other
                        );
                        std::process::exit(2);
                    }
                }
                self.ctx.record(desc(), what, size);
                false
            }
        };
        slot.started_ms.store(0, Ordering::Relaxed);
        ok
    }

    /// Offer a sample case for the evidence file (kept sparsely; the seed rotates the choice).
    #[inline]
    pub fn sample(&mut self, f: impl FnOnce() -> Value) {
        if self.samples.len() < 1 || (self.samples.len() < 4 && (self.ncases.wrapping_add(self.ctx.seed)) % 50021 == 0) {
            self.samples.push(f());
        }
    }

    fn finish(self) {
        let ctx = self.ctx;
        ctx.evaluations.fetch_add(self.ncases, Ordering::Relaxed);
        let mut m = ctx.merged.lock().unwrap();
        for (k, v) in self.stats.counters {
            *m.counters.entry(k).or_insert(0) += v;
        }
        for (k, v) in self.stats.sets {
            m.sets.entry(k).or_default().extend(v);
        }
        for (k, v) in self.stats.maxima {
            let e = m.maxima.entry(k).or_insert(0);
            if v > *e {
                *e = v;
            }
        }
        drop(m);
        let mut s = ctx.samples.lock().unwrap();
        if s.len() < 40 {
            s.extend(self.samples);
        }
    }
}

fn load_known(verif_dir: &str, prop: &str) -> (Vec<Known>, Vec<KnownSet>) {
    let path = format!("{}/known_findings.jsonl", verif_dir);
    let text = match std::fs::read_to_string(&path) {
        Ok(t) => t,
        Err(_) => return (Vec::new(), Vec::new()),
    };
    let mut out = Vec::new();
    let mut sets = Vec::new();
    for (ln, line) in text.lines().enumerate() {
        let line = line.trim();
        if line.is_empty() || line.starts_with('#') || line.starts_with("fixed:") {
            continue;
        }
        let v: Value = match serde_json::from_str(line) {
            Ok(v) => v,
            Err(e) => {
                eprintln!("ENGINE-ERROR {} line {}: {}", path, ln + 1, e);
                std::process::exit(2);
            }
        };
        if v["property"] == prop && v["status"] == "known" {
            let what = v["what"].as_str().unwrap_or("").to_string();
            if let Some(file) = v["case_file"].as_str() {
                let fp = format!("{}/{}", verif_dir, file);
                let body = std::fs::read_to_string(&fp).unwrap_or_else(|e| {
                    eprintln!("ENGINE-ERROR cannot read {}: {}", fp, e);
                    std::process::exit(2)
                });
                let cases: HashSet<String> = body
                    .lines()
                    .filter(|l| !l.trim().is_empty())
                    .map(|l| canonical(&serde_json::from_str::<Value>(l).unwrap_or_else(|e| {
                        eprintln!("ENGINE-ERROR {}: {}", fp, e);
                        std::process::exit(2)
                    })))
                    .collect();
                sets.push(KnownSet { file: file.to_string(), what, cases });
            } else {
                out.push(Known { case: v["case"].clone(), what });
            }
        }
    }
    (out, sets)
}

/// This process is the plain-profile child of a check (C05, C11 run under both build profiles).
pub fn is_child() -> bool {
    std::env::var("MC_CHILD").is_ok()
}

pub fn child_evidence_path(verif_dir: &str, prop: &str) -> String {
    format!("{}/evidence/.{}.plain-child.json", verif_dir, prop)
}
/// Run the same check in the plain release build (no overflow checks, no debug assertions) as a
/// child process. Returns (its evidence, its exit code). Its VIOLATION lines go to our stdout.
pub fn run_plain_child(ctx: &Ctx) -> (Value, i32) {
    let bin = match std::env::var("MC_PLAIN_BIN") {
        Ok(b) => b,
        Err(_) => {
            eprintln!("ENGINE-ERROR MC_PLAIN_BIN is not set (run through /verif/check)");
            std::process::exit(2);
        }
    };
    let path = child_evidence_path(&ctx.verif_dir, ctx.prop);
    let _ = std::fs::remove_file(&path);
    let status = std::process::Command::new(&bin)
        .arg(ctx.prop)
        .arg(ctx.tier.name())
        .env("MC_CHILD", "1")
        .status();
    let code = match status {
        Ok(s) => s.code().unwrap_or(2),
        Err(e) => {
            eprintln!("ENGINE-ERROR cannot run {}: {}", bin, e);
            std::process::exit(2);
        }
    };
    if code != 0 && code != 1 {
        eprintln!("ENGINE-ERROR plain-profile child exited with {}", code);
        std::process::exit(2);
    }
    let ev: Value = std::fs::read_to_string(&path).ok().and_then(|t| serde_json::from_str(&t).ok()).unwrap_or_else(|| {
        eprintln!("ENGINE-ERROR plain-profile child wrote no evidence");
        std::process::exit(2);
    });
    let _ = std::fs::remove_file(&path);
    (ev, code)
}
