//! Bridge between the reference models (plain integers) and the crate's public types.

use datamatrix::data::DataEncodingError;
use datamatrix::{DataMatrix, DataMatrixBuilder, EncodationType, SymbolList, SymbolSize};
use flagset::FlagSet;
use serde_json::{json, Value};

use crate::explore::{hex, unhex};
use crate::refmodel::symbols::SYMBOLS;

/// The crate's variant for each row of the reference catalogue R2 (same order). The
/// association is by the variant's name, which states the dimensions.
#[rustfmt::skip]
pub const SIZES: [SymbolSize; 48] = [
    SymbolSize::Square10, SymbolSize::Square12, SymbolSize::Square14, SymbolSize::Square16,
    SymbolSize::Square18, SymbolSize::Square20, SymbolSize::Square22, SymbolSize::Square24,
    SymbolSize::Square26, SymbolSize::Square32, SymbolSize::Square36, SymbolSize::Square40,
    SymbolSize::Square44, SymbolSize::Square48, SymbolSize::Square52, SymbolSize::Square64,
    SymbolSize::Square72, SymbolSize::Square80, SymbolSize::Square88, SymbolSize::Square96,
    SymbolSize::Square104, SymbolSize::Square120, SymbolSize::Square132, SymbolSize::Square144,
    SymbolSize::Rect8x18, SymbolSize::Rect8x32, SymbolSize::Rect12x26, SymbolSize::Rect12x36,
    SymbolSize::Rect16x36, SymbolSize::Rect16x48,
    SymbolSize::Rect8x48, SymbolSize::Rect8x64, SymbolSize::Rect8x80, SymbolSize::Rect8x96,
    SymbolSize::Rect8x120, SymbolSize::Rect8x144, SymbolSize::Rect12x64, SymbolSize::Rect12x88,
    SymbolSize::Rect16x64, SymbolSize::Rect20x36, SymbolSize::Rect20x44, SymbolSize::Rect20x64,
    SymbolSize::Rect22x48, SymbolSize::Rect24x48, SymbolSize::Rect24x64, SymbolSize::Rect26x40,
    SymbolSize::Rect26x48, SymbolSize::Rect26x64,
];

/// Check that the names of the variants state the dimensions of the reference rows.
pub fn self_check() -> Result<(), String> {
    for (i, sz) in SIZES.iter().enumerate() {
        let name = format!("{:?}", sz);
        let sy = &SYMBOLS[i];
        let want = if sy.is_square() { format!("Square{}", sy.rows) } else { format!("Rect{}x{}", sy.rows, sy.cols) };
        if name != want {
            return Err(format!("bridge table row {}: {} vs {}", i, name, want));
        }
    }
    Ok(())
}

pub fn ref_index(size: SymbolSize) -> usize {
    SIZES.iter().position(|s| *s == size).expect("unknown SymbolSize")
}

pub fn size_name(i: usize) -> String {
    format!("{:?}", SIZES[i])
}

pub const MODE_TYPES: [EncodationType; 6] = [
    EncodationType::Ascii,
    EncodationType::C40,
    EncodationType::Text,
    EncodationType::X12,
    EncodationType::Edifact,
    EncodationType::Base256,
];

/// bit i of `bits` = reference Mode i
pub fn modes(bits: u8) -> FlagSet<EncodationType> {
    let mut fs = FlagSet::<EncodationType>::default();
    for (i, m) in MODE_TYPES.iter().enumerate() {
        if bits >> i & 1 == 1 {
            fs |= *m;
        }
    }
    fs
}

pub fn mode_bit_of(t: EncodationType) -> u8 {
    1 << MODE_TYPES.iter().position(|m| *m == t).unwrap()
}

pub const ALL_MODES: u8 = 0x3f;

/// A symbol list as a bit mask over the 48 reference rows.
#[derive(Clone, Copy, PartialEq, Eq, Hash, Debug)]
pub struct ListMask(pub u64);

impl ListMask {
    pub fn default_list() -> ListMask {
        let mut m = 0u64;
        for (i, s) in SYMBOLS.iter().enumerate() {
            if !s.dmre {
                m |= 1 << i;
            }
        }
        ListMask(m)
    }
    pub fn all() -> ListMask {
        ListMask((1u64 << 48) - 1)
    }
    pub fn single(i: usize) -> ListMask {
        ListMask(1 << i)
    }
    pub fn of(idx: &[usize]) -> ListMask {
        ListMask(idx.iter().fold(0, |m, i| m | 1 << i))
    }
    pub fn indices(self) -> Vec<usize> {
        (0..48).filter(|i| self.0 >> i & 1 == 1).collect()
    }
    pub fn is_empty(self) -> bool {
        self.0 == 0
    }
    /// Built through the public constructors: default()/all() for the two standard lists,
    /// with_whitelist otherwise.
    pub fn to_list(self) -> SymbolList {
        if self == ListMask::default_list() {
            SymbolList::default()
        } else if self == ListMask::all() {
            SymbolList::all()
        } else {
            SymbolList::with_whitelist(self.indices().into_iter().map(|i| SIZES[i]))
        }
    }
    pub fn max_capacity(self) -> usize {
        self.indices().iter().map(|i| SYMBOLS[*i].data).max().unwrap_or(0)
    }
    pub fn to_json(self) -> Value {
        if self == ListMask::default_list() {
            json!("default")
        } else if self == ListMask::all() {
            json!("all")
        } else {
            Value::Array(self.indices().iter().map(|i| json!(size_name(*i))).collect())
        }
    }
    pub fn from_json(v: &Value) -> ListMask {
        match v {
            Value::String(s) if s == "default" => ListMask::default_list(),
            Value::String(s) if s == "all" => ListMask::all(),
            Value::Array(a) => {
                let mut m = 0u64;
                for n in a {
                    let n = n.as_str().expect("size name");
                    let i = (0..48).find(|i| size_name(*i) == n).expect("unknown size name");
                    m |= 1 << i;
                }
                ListMask(m)
            }
            _ => panic!("bad list spec"),
        }
    }
}

/// One encoder configuration.
#[derive(Clone, Copy, PartialEq, Eq, Hash, Debug)]
pub struct Cfg {
    pub modes: u8,
    pub list: ListMask,
    pub macros: bool,
    pub fnc1: bool,
    pub eci: Option<u32>,
}

impl Cfg {
    pub fn plain() -> Cfg {
        Cfg { modes: ALL_MODES, list: ListMask::default_list(), macros: true, fnc1: false, eci: None }
    }
    pub fn builder(&self) -> DataMatrixBuilder {
        DataMatrixBuilder::new()
            .with_encodation_types(modes(self.modes))
            .with_symbol_list(self.list.to_list())
            .with_macros(self.macros)
            .with_fnc1_start(self.fnc1)
    }
    pub fn encode(&self, input: &[u8]) -> Result<DataMatrix, DataEncodingError> {
        match self.eci {
            None => self.builder().encode(input),
            Some(e) => self.builder().encode_eci(input, Some(e)),
        }
    }
    pub fn to_json(&self, input: &[u8]) -> Value {
        json!({
            "in": hex(input),
            "modes": format!("{:06b}", self.modes),
            "list": self.list.to_json(),
            "macros": self.macros,
            "fnc1": self.fnc1,
            "eci": self.eci,
        })
    }
    pub fn from_json(v: &Value) -> (Cfg, Vec<u8>) {
        let modes = u8::from_str_radix(v["modes"].as_str().expect("modes"), 2).expect("modes bits");
        (
            Cfg {
                modes,
                list: ListMask::from_json(&v["list"]),
                macros: v["macros"].as_bool().unwrap_or(true),
                fnc1: v["fnc1"].as_bool().unwrap_or(false),
                eci: v["eci"].as_u64().map(|e| e as u32),
            },
            unhex(v["in"].as_str().expect("in")),
        )
    }
    /// Number of header codewords written before the data (macro excluded).
    pub fn header_len(&self) -> usize {
        let mut h = 0;
        if self.fnc1 {
            h += 1;
        }
        if let Some(e) = self.eci {
            h += 1 + crate::refmodel::decoder::write_eci(e).len();
        }
        h
    }
}

/// The macro envelope as ISO/IEC 16022 5.2.4.8 defines it: returns (macro codeword, body).
pub fn macro_split(input: &[u8]) -> Option<(u8, &[u8])> {
    const H5: &[u8] = b"[)>\x1e05\x1d";
    const H6: &[u8] = b"[)>\x1e06\x1d";
    const TR: &[u8] = b"\x1e\x04";
    if input.len() >= 9 && input.ends_with(TR) {
        if input.starts_with(H5) {
            return Some((236, &input[7..input.len() - 2]));
        }
        if input.starts_with(H6) {
            return Some((237, &input[7..input.len() - 2]));
        }
    }
    None
}
