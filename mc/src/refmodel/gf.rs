//! R1 — GF(256) modulo x^8+x^5+x^3+x^2+1 (0x12D) and the Reed-Solomon code of
//! ISO/IEC 16022 (generator with roots 2^1..2^k). No tables: shift-and-xor.

use super::symbols::Sym;

pub fn mul(mut a: u8, mut b: u8) -> u8 {
    let mut r = 0u8;
    while b != 0 {
        if b & 1 != 0 {
            r ^= a;
        }
        let hi = a & 0x80 != 0;
        a <<= 1;
        if hi {
            a ^= 0x2D; // 0x12D without the x^8 term
        }
        b >>= 1;
    }
    r
}

pub fn pow(a: u8, mut e: usize) -> u8 {
    let mut r = 1u8;
    let mut base = a;
    while e > 0 {
        if e & 1 == 1 {
            r = mul(r, base);
        }
        base = mul(base, base);
        e >>= 1;
    }
    r
}

pub fn inv(a: u8) -> u8 {
    assert!(a != 0);
    pow(a, 254)
}

/// Evaluate the polynomial whose coefficients are given highest degree first.
pub fn eval(poly_hi_first: &[u8], x: u8) -> u8 {
    let mut acc = 0u8;
    for c in poly_hi_first {
        acc = mul(acc, x) ^ c;
    }
    acc
}

/// Syndromes S_1..S_k of a block (first element = coefficient of the highest power).
pub fn syndromes(block: &[u8], k: usize) -> Vec<u8> {
    (1..=k).map(|i| eval(block, pow(2, i))).collect()
}

/// Generator polynomial prod_{i=1..k} (x - 2^i), highest degree first, k+1 coefficients.
pub fn generator(k: usize) -> Vec<u8> {
    let mut g = vec![1u8];
    for i in 1..=k {
        let root = pow(2, i);
        // multiply by (x + root)
        let mut n = vec![0u8; g.len() + 1];
        for (j, c) in g.iter().enumerate() {
            n[j] ^= *c;
            n[j + 1] ^= mul(*c, root);
        }
        g = n;
    }
    g
}

/// Reference systematic encoder: remainder of data(x)*x^k modulo generator(k).
pub fn ec_of_block(data: &[u8], k: usize) -> Vec<u8> {
    let g = generator(k);
    let mut rem = vec![0u8; k];
    for d in data {
        let f = rem[0] ^ d;
        for j in 0..k {
            let next = if j + 1 < k { rem[j + 1] } else { 0 };
            rem[j] = next ^ mul(f, g[j + 1]);
        }
    }
    rem
}

/// Indices (into the full codeword vector) of block `b`: data b, b+B, ... then EC b, b+B, ...
pub fn block_indices(sy: &Sym, b: usize) -> (Vec<usize>, Vec<usize>) {
    let bl = sy.blocks;
    let data: Vec<usize> = (b..sy.data).step_by(bl).collect();
    let ec: Vec<usize> = (b..sy.ec).step_by(bl).map(|i| sy.data + i).collect();
    (data, ec)
}

/// The codewords of block `b`, data part first.
pub fn block_of(sy: &Sym, cw: &[u8], b: usize) -> Vec<u8> {
    let (d, e) = block_indices(sy, b);
    d.iter().chain(e.iter()).map(|i| cw[*i]).collect()
}

/// Reference interleaved error codewords for a full data vector.
pub fn ec_of_symbol(sy: &Sym, data: &[u8]) -> Vec<u8> {
    assert_eq!(data.len(), sy.data);
    let k = sy.ec_per_block();
    let mut out = vec![0u8; sy.ec];
    for b in 0..sy.blocks {
        let d: Vec<u8> = (b..sy.data).step_by(sy.blocks).map(|i| data[i]).collect();
        let e = ec_of_block(&d, k);
        for (j, v) in e.iter().enumerate() {
            out[b + j * sy.blocks] = *v;
        }
    }
    out
}

/// True iff every interleaved block of the full codeword vector has all-zero syndromes.
pub fn is_codeword(sy: &Sym, cw: &[u8]) -> bool {
    let k = sy.ec_per_block();
    (0..sy.blocks).all(|b| syndromes(&block_of(sy, cw, b), k).iter().all(|s| *s == 0))
}

pub fn self_check() -> Result<(), String> {
    // coefficients printed in ISO/IEC 16022 Annex E for 5 error codewords
    if generator(5) != vec![1, 62, 111, 15, 48, 228] {
        return Err(format!("generator(5) = {:?}", generator(5)));
    }
    // 7 error codewords
    if generator(7) != vec![1, 254, 92, 240, 134, 144, 68, 23] {
        return Err(format!("generator(7) = {:?}", generator(7)));
    }
    // field sanity: 2 is primitive
    let mut seen = [false; 256];
    let mut x = 1u8;
    for _ in 0..255 {
        if seen[x as usize] {
            return Err("2 is not primitive".into());
        }
        seen[x as usize] = true;
        x = mul(x, 2);
    }
    if x != 1 {
        return Err("2^255 != 1".into());
    }
    for a in 1..=255u8 {
        if mul(a, inv(a)) != 1 {
            return Err("inverse".into());
        }
    }
    // encoder/syndrome consistency on one vector, the example of the standard's Annex O ("123456")
    let d = [142u8, 164, 186];
    let e = ec_of_block(&d, 5);
    if e != vec![114, 25, 5, 88, 102] {
        return Err(format!("ec of 123456 = {:?}", e));
    }
    let mut blk = d.to_vec();
    blk.extend(e);
    if syndromes(&blk, 5).iter().any(|s| *s != 0) {
        return Err("syndromes of reference codeword not zero".into());
    }
    Ok(())
}
