//! R4 — finder pattern / alignment pattern renderer derived from the region
//! layout of R2 (ISO/IEC 16022 5.1, Figure 1 and Table 7).
//!
//! Every data region is surrounded by a one module wide border: solid dark on its
//! left and bottom side, alternating dark/light on its top and right side. With
//! even region sizes the alternation has a global phase: top borders are dark in
//! even symbol columns, right borders are dark in odd symbol rows.

use super::placement::{place, Cell};
use super::symbols::Sym;

#[derive(Clone, Copy, Debug, PartialEq, Eq)]
pub enum Module {
    /// finder / clock / alignment module with its prescribed colour
    Border(bool),
    /// data module: row/column in the mapping matrix
    Data(usize, usize),
}

pub fn classify(sy: &Sym, r: usize, c: usize) -> Module {
    let rh = sy.reg_rows + 2;
    let rw = sy.reg_cols + 2;
    let lr = r % rh;
    let lc = c % rw;
    if lc == 0 || lr == rh - 1 {
        return Module::Border(true); // solid: left side and bottom side
    }
    if lr == 0 {
        return Module::Border(c % 2 == 0); // top side, alternating, dark first
    }
    if lc == rw - 1 {
        return Module::Border(r % 2 == 1); // right side, alternating, dark at the bottom
    }
    Module::Data((r / rh) * sy.reg_rows + lr - 1, (c / rw) * sy.reg_cols + lc - 1)
}

/// Render a mapping matrix (row-major, map_rows x map_cols) into the full symbol.
pub fn render_matrix(sy: &Sym, matrix: &[bool]) -> Vec<bool> {
    assert_eq!(matrix.len(), sy.map_rows() * sy.map_cols());
    let mut out = vec![false; sy.rows * sy.cols];
    for r in 0..sy.rows {
        for c in 0..sy.cols {
            out[r * sy.cols + c] = match classify(sy, r, c) {
                Module::Border(d) => d,
                Module::Data(mr, mc) => matrix[mr * sy.map_cols() + mc],
            };
        }
    }
    out
}

/// Mapping matrix for a full codeword vector (R3).
pub fn matrix_of_codewords(sy: &Sym, cw: &[u8]) -> Vec<bool> {
    assert_eq!(cw.len(), sy.total());
    place(sy.map_rows(), sy.map_cols())
        .iter()
        .map(|cell| match *cell {
            Cell::Bit(chr, bit) => (cw[chr as usize - 1] >> (8 - bit)) & 1 == 1,
            Cell::Fixed(d) => d,
            Cell::Unset => unreachable!(),
        })
        .collect()
}

/// Full reference rendering of a codeword vector.
pub fn bitmap_of_codewords(sy: &Sym, cw: &[u8]) -> Vec<bool> {
    render_matrix(sy, &matrix_of_codewords(sy, cw))
}

/// Pixel index (row-major in the full symbol) of every codeword bit:
/// result[chr0 * 8 + (bit - 1)] with bit 1 = most significant.
pub fn pixel_of_bits(sy: &Sym) -> Vec<usize> {
    let cells = place(sy.map_rows(), sy.map_cols());
    let mut map_to_pixel = vec![usize::MAX; cells.len()];
    for r in 0..sy.rows {
        for c in 0..sy.cols {
            if let Module::Data(mr, mc) = classify(sy, r, c) {
                map_to_pixel[mr * sy.map_cols() + mc] = r * sy.cols + c;
            }
        }
    }
    let mut out = vec![usize::MAX; sy.total() * 8];
    for (i, cell) in cells.iter().enumerate() {
        if let Cell::Bit(chr, bit) = *cell {
            out[(chr as usize - 1) * 8 + bit as usize - 1] = map_to_pixel[i];
        }
    }
    out
}

pub fn self_check() -> Result<(), String> {
    use super::symbols::SYMBOLS;
    for sy in SYMBOLS.iter() {
        let mut seen = vec![false; sy.map_rows() * sy.map_cols()];
        let mut border = 0;
        for r in 0..sy.rows {
            for c in 0..sy.cols {
                match classify(sy, r, c) {
                    Module::Border(_) => border += 1,
                    Module::Data(mr, mc) => {
                        let i = mr * sy.map_cols() + mc;
                        if seen[i] {
                            return Err(format!("{}: data cell mapped twice", sy.name()));
                        }
                        seen[i] = true;
                    }
                }
            }
        }
        if seen.iter().any(|s| !s) {
            return Err(format!("{}: data cell not mapped", sy.name()));
        }
        if border + seen.len() != sy.rows * sy.cols {
            return Err(format!("{}: module count", sy.name()));
        }
        // corners of the symbol: L corner dark, top right light, bottom right dark
        let px = |r: usize, c: usize| classify(sy, r, c);
        if px(0, 0) != Module::Border(true)
            || px(sy.rows - 1, 0) != Module::Border(true)
            || px(sy.rows - 1, sy.cols - 1) != Module::Border(true)
            || px(0, sy.cols - 1) != Module::Border(false)
        {
            return Err(format!("{}: corner colours", sy.name()));
        }
        if pixel_of_bits(sy).iter().any(|p| *p == usize::MAX) {
            return Err(format!("{}: bit without pixel", sy.name()));
        }
    }
    Ok(())
}
