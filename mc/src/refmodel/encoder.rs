//! R6 — the nondeterministic reference encoder of ISO/IEC 16022.
//!
//! Two uses:
//! * `feasible()` — breadth-first search over the states `(chars consumed,
//!   codewords written)` of the encoder automaton: is there *any* legal encoding
//!   of the input with the enabled modes that fits a given capacity?
//! * `build()` — materialise the codeword stream of one explicit script
//!   (segmentation into mode runs + termination form per run), padded to a
//!   capacity; illegal scripts are refused with a reason.
//!
//! Tiers of end-of-data forms (DESIGN.md §4 R6):
//! * Strict   — forms the standard spells out (5.2.5.2 a–d, 5.2.7.2, 5.2.8.2, 5.2.9).
//! * DeFacto  — plus forms this crate (and zxing) emit: a dangling Shift used to
//!   fill a C40/Text triple before an Unlatch; two digits in the last codeword
//!   after an implied unlatch.
//! * Lenient  — plus any single ASCII codeword in the last symbol position after a
//!   C40/Text run (a character that needs two C40 values).

use super::decoder::{rand253, rand255, Mode};

#[derive(Clone, Copy, PartialEq, Eq, Debug, PartialOrd, Ord)]
pub enum Tier {
    Strict,
    DeFacto,
    Lenient,
}

pub fn ascii_size(s: &[u8]) -> usize {
    let mut i = 0;
    let mut c = 0;
    while i < s.len() {
        if i + 1 < s.len() && s[i].is_ascii_digit() && s[i + 1].is_ascii_digit() {
            i += 2;
            c += 1;
        } else {
            c += if s[i] < 128 { 1 } else { 2 };
            i += 1;
        }
    }
    c
}

/// The C40 (text = false) or Text (text = true) values of one character.
pub fn c40_values(ch: u8, text: bool, out: &mut Vec<u8>) {
    if ch >= 128 {
        out.push(1);
        out.push(30); // Shift 2, Upper Shift
        return c40_values(ch - 128, text, out);
    }
    let (lower, upper) = (ch.is_ascii_lowercase(), ch.is_ascii_uppercase());
    match ch {
        b' ' => out.push(3),
        b'0'..=b'9' => out.push(4 + ch - b'0'),
        _ if (upper && !text) || (lower && text) => {
            out.push(14 + (ch | 0x20) - b'a');
        }
        0..=31 => {
            out.push(0);
            out.push(ch);
        }
        33..=47 => {
            out.push(1);
            out.push(ch - 33);
        }
        58..=64 => {
            out.push(1);
            out.push(ch - 58 + 15);
        }
        91..=95 => {
            out.push(1);
            out.push(ch - 91 + 22);
        }
        96..=127 => {
            // shift 3: ` then the other-case letters, then { | } ~ DEL
            out.push(2);
            out.push(ch - 96);
        }
        _ => {
            // letters of the other case live in shift 3 at the position of their lower-case code
            debug_assert!(upper || lower);
            out.push(2);
            out.push((ch | 0x20) - 96);
        }
    }
}

pub fn c40_nvals(ch: u8, text: bool) -> usize {
    let mut v = Vec::with_capacity(4);
    c40_values(ch, text, &mut v);
    v.len()
}

pub fn x12_value(ch: u8) -> Option<u8> {
    match ch {
        13 => Some(0),
        42 => Some(1),
        62 => Some(2),
        32 => Some(3),
        b'0'..=b'9' => Some(4 + ch - b'0'),
        b'A'..=b'Z' => Some(14 + ch - b'A'),
        _ => None,
    }
}

pub fn edifact_ok(ch: u8) -> bool {
    (32..=94).contains(&ch)
}

fn pack3(v: [u8; 3], out: &mut Vec<u8>) {
    let x = 1600 * v[0] as u32 + 40 * v[1] as u32 + v[2] as u32 + 1;
    out.push((x >> 8) as u8);
    out.push((x & 0xff) as u8);
}

// ---------------------------------------------------------------------------------------------
// feasibility search
// ---------------------------------------------------------------------------------------------

#[derive(Default, Clone, Copy, Debug)]
pub struct Search {
    pub states: u64,
    pub transitions: u64,
}

/// How a segment of a witness encoding ends.
#[derive(Clone, Copy, Debug, PartialEq, Eq)]
pub enum Form {
    /// one character in one or two ASCII codewords
    Ascii1,
    /// two digits in one ASCII codeword
    AsciiPair,
    /// run closed by an explicit unlatch (a dangling shift fills an open triple: de-facto tier)
    Unlatch,
    /// run ends exactly at the end of symbol and data, no unlatch (forms a, b)
    ExactEnd,
    /// run ends one codeword before the end of the symbol; the rest of the data follows as one
    /// ASCII codeword with implied unlatch (form d)
    ImpliedAscii,
    /// EDIFACT: at a group boundary with <= 2 codewords left the rest follows in ASCII
    EdifactTail,
    /// Base256 with explicit length field
    B256Len,
    /// Base256 with length 0, to the end of the symbol
    B256ToEnd,
}

/// One step of a witness encoding: characters from..to in `mode`, ending with `form`.
#[derive(Clone, Copy, Debug, PartialEq, Eq)]
pub struct WSeg {
    pub mode: Mode,
    pub from: usize,
    pub to: usize,
    pub form: Form,
}

/// Observer of the search (monomorphised; the plain feasibility test records nothing).
pub trait Recorder {
    fn edge(&mut self, from: (usize, usize), to: (usize, usize), seg: WSeg);
    fn last(&mut self, from: (usize, usize), seg: WSeg);
}

pub struct NoRecord;
impl Recorder for NoRecord {
    #[inline(always)]
    fn edge(&mut self, _: (usize, usize), _: (usize, usize), _: WSeg) {}
    #[inline(always)]
    fn last(&mut self, _: (usize, usize), _: WSeg) {}
}

/// Records the first edge into every state, to reconstruct one witness path.
pub struct PathRecord {
    width: usize,
    parent: Vec<Option<((usize, usize), WSeg)>>,
    last: Option<((usize, usize), Option<WSeg>)>,
}

impl Recorder for PathRecord {
    fn edge(&mut self, from: (usize, usize), to: (usize, usize), seg: WSeg) {
        let k = to.0 * self.width + to.1;
        if k < self.parent.len() && self.parent[k].is_none() {
            self.parent[k] = Some((from, seg));
        }
    }
    fn last(&mut self, from: (usize, usize), seg: WSeg) {
        if self.last.is_none() {
            self.last = Some((from, Some(seg)));
        }
    }
}

/// Is there a legal encoding of `s` that fits `cap` data codewords (pads fill the rest) when
/// `h` header codewords (macro / FNC1 / ECI) are already written, using only `modes`
/// (bit i = Mode i)?
pub fn feasible(s: &[u8], modes: u8, cap: usize, h: usize, tier: Tier, st: &mut Search) -> bool {
    search(s, modes, cap, h, tier, st, &mut NoRecord).is_some()
}

/// Like `feasible`, but returns one witness encoding (a list of segments) if there is one.
pub fn witness(s: &[u8], modes: u8, cap: usize, h: usize, tier: Tier, st: &mut Search) -> Option<Vec<WSeg>> {
    let width = cap + 1;
    let mut rec = PathRecord { width, parent: vec![None; (s.len() + 1) * width], last: None };
    let end = search(s, modes, cap, h, tier, st, &mut rec)?;
    let mut segs = Vec::new();
    let mut cur = match rec.last {
        Some((from, Some(seg))) => {
            segs.push(seg);
            from
        }
        _ => end,
    };
    while cur != (0, h) {
        let (from, seg) = rec.parent[cur.0 * width + cur.1].expect("reached state has a parent");
        segs.push(seg);
        cur = from;
    }
    segs.reverse();
    Some(segs)
}

/// Breadth-first search over the states (characters consumed, codewords written) at ASCII
/// boundaries. Returns the final state if the end of data is reachable within `cap`.
fn search<R: Recorder>(s: &[u8], modes: u8, cap: usize, h: usize, tier: Tier, st: &mut Search, rec: &mut R) -> Option<(usize, usize)> {
    let n = s.len();
    if h > cap {
        return None;
    }
    let en = |m: Mode| modes & m.bit() != 0;
    let width = cap + 1;
    let mut reach = vec![false; (n + 1) * width];
    reach[h] = true;
    for i in 0..=n {
        for w in 0..=cap {
            if !reach[i * width + w] {
                continue;
            }
            st.states += 1;
            if i == n {
                return Some((i, w)); // pads fill the rest
            }
            macro_rules! go {
                ($j:expr, $w:expr, $mode:expr, $form:expr) => {{
                    st.transitions += 1;
                    let (j, w2): (usize, usize) = ($j, $w);
                    if w2 <= cap {
                        rec.edge((i, w), (j, w2), WSeg { mode: $mode, from: i, to: j, form: $form });
                        if j == n {
                            return Some((j, w2));
                        }
                        reach[j * width + w2] = true;
                    }
                }};
            }
            // the encoding ends with this segment, exactly at the end of the symbol;
            // `$j` = characters covered by the run itself (the rest follows as the form says)
            macro_rules! end_exact {
                ($w:expr, $j:expr, $mode:expr, $form:expr) => {{
                    st.transitions += 1;
                    if $w == cap {
                        rec.last((i, w), WSeg { mode: $mode, from: i, to: $j, form: $form });
                        return Some((n, cap));
                    }
                }};
            }
            if en(Mode::Ascii) {
                go!(i + 1, w + if s[i] < 128 { 1 } else { 2 }, Mode::Ascii, Form::Ascii1);
                if i + 1 < n && s[i].is_ascii_digit() && s[i + 1].is_ascii_digit() {
                    go!(i + 2, w + 1, Mode::Ascii, Form::AsciiPair);
                }
            }
            let base = w + 1; // after the latch codeword
            for (m, text) in [(Mode::C40, false), (Mode::Text, true)] {
                if !en(m) {
                    continue;
                }
                let mut v = 0;
                for j in i + 1..=n {
                    v += c40_nvals(s[j - 1], text);
                    let full = 2 * (v / 3);
                    let padded = 2 * ((v + 2) / 3);
                    if base + full > cap {
                        break; // longer runs only cost more
                    }
                    match v % 3 {
                        0 => {
                            go!(j, base + full + 1, m, Form::Unlatch);
                            if j == n {
                                end_exact!(base + full, j, m, Form::ExactEnd); // (a)
                            }
                            // (d): one codeword left in the symbol, ASCII with implied unlatch
                            let rest = &s[j..];
                            if !rest.is_empty() && rest.len() <= 2 && ascii_size(rest) == 1 {
                                let literal = rest.len() == 1 && c40_nvals(rest[0], text) == 1;
                                let ok = match tier {
                                    Tier::Strict => literal,
                                    Tier::DeFacto => literal || rest.len() == 2,
                                    Tier::Lenient => true,
                                };
                                if ok {
                                    end_exact!(base + full + 1, j, m, Form::ImpliedAscii);
                                }
                            }
                        }
                        2 => {
                            if j == n {
                                end_exact!(base + padded, j, m, Form::ExactEnd); // (b): pad value Shift 1
                            }
                            if tier >= Tier::DeFacto {
                                go!(j, base + padded + 1, m, Form::Unlatch); // dangling shift, Unlatch
                            }
                        }
                        _ => {
                            if tier >= Tier::DeFacto {
                                go!(j, base + padded + 1, m, Form::Unlatch); // dangling shift + upper shift
                                if j == n {
                                    end_exact!(base + padded, j, m, Form::ExactEnd);
                                }
                            }
                        }
                    }
                }
            }
            if en(Mode::X12) {
                let mut j = i;
                while j < n && x12_value(s[j]).is_some() {
                    j += 1;
                    if (j - i) % 3 == 0 {
                        let cwn = 2 * (j - i) / 3;
                        if base + cwn > cap {
                            break;
                        }
                        go!(j, base + cwn + 1, Mode::X12, Form::Unlatch);
                        if j == n {
                            end_exact!(base + cwn, j, Mode::X12, Form::ExactEnd);
                        }
                        let rest = &s[j..];
                        if !rest.is_empty() && rest.len() <= 2 && ascii_size(rest) == 1 {
                            if rest.len() == 1 || tier >= Tier::DeFacto {
                                end_exact!(base + cwn + 1, j, Mode::X12, Form::ImpliedAscii);
                            }
                        }
                    }
                }
            }
            if en(Mode::Edifact) {
                let mut j = i;
                loop {
                    let r = j - i;
                    if r % 4 == 0 {
                        // group boundary: with <= 2 codewords left the rest is ASCII, no unlatch
                        // (also directly after the latch: an empty run, cf. DESIGN.md 10.3 C13)
                        let pos = base + 3 * r / 4;
                        if pos <= cap && cap - pos <= 2 {
                            let rest = &s[j..];
                            if rest.len() <= 4 && ascii_size(rest) <= cap - pos {
                                st.transitions += 1;
                                rec.last((i, w), WSeg { mode: Mode::Edifact, from: i, to: j, form: Form::EdifactTail });
                                return Some((n, cap));
                            }
                        }
                    }
                    if r >= 1 {
                        // unlatch value after r data values
                        let bytes = 3 * ((r + 1) / 4) + (r + 1) % 4;
                        let last_group_start = base + 3 * (r / 4);
                        if last_group_start + 3 <= cap {
                            go!(j, base + bytes, Mode::Edifact, Form::Unlatch);
                        }
                    }
                    if j < n && edifact_ok(s[j]) && base + 3 * (r / 4) <= cap {
                        j += 1;
                    } else {
                        break;
                    }
                }
            }
            if en(Mode::Base256) {
                for j in i + 1..=n {
                    let l = j - i;
                    if l > 1555 {
                        break;
                    }
                    let lenb = if l <= 249 { 1 } else { 2 };
                    if base + 1 + l > cap {
                        break;
                    }
                    go!(j, base + lenb + l, Mode::Base256, Form::B256Len);
                    if j == n {
                        end_exact!(base + 1 + l, j, Mode::Base256, Form::B256ToEnd); // length 0
                    }
                }
            }
        }
    }
    None
}

/// Materialise a witness encoding into the padded codeword stream of capacity `cap`.
/// `header` holds the codewords already written (macro / FNC1 / ECI).
pub fn materialise(header: &[u8], s: &[u8], segs: &[WSeg], cap: usize) -> Result<Vec<u8>, String> {
    let mut cw = header.to_vec();
    let n = s.len();
    let ascii_into = |cw: &mut Vec<u8>, chars: &[u8]| {
        let mut j = 0;
        while j < chars.len() {
            if j + 1 < chars.len() && chars[j].is_ascii_digit() && chars[j + 1].is_ascii_digit() {
                cw.push(130 + (chars[j] - b'0') * 10 + (chars[j + 1] - b'0'));
                j += 2;
            } else {
                if chars[j] >= 128 {
                    cw.push(235);
                    cw.push(chars[j] - 127);
                } else {
                    cw.push(chars[j] + 1);
                }
                j += 1;
            }
        }
    };
    let mut covered = 0;
    for seg in segs {
        if seg.from != covered {
            return Err(format!("witness segments are not contiguous at {}", seg.from));
        }
        let run = &s[seg.from..seg.to];
        covered = seg.to;
        match (seg.mode, seg.form) {
            (Mode::Ascii, Form::Ascii1) | (Mode::Ascii, Form::AsciiPair) => ascii_into(&mut cw, run),
            (Mode::C40, _) | (Mode::Text, _) | (Mode::X12, _) => {
                cw.push(seg.mode.latch());
                let mut vals = Vec::new();
                for ch in run {
                    if seg.mode == Mode::X12 {
                        vals.push(x12_value(*ch).ok_or("not an X12 character")?);
                    } else {
                        c40_values(*ch, seg.mode == Mode::Text, &mut vals);
                    }
                }
                match (vals.len() % 3, seg.form) {
                    (0, _) => {}
                    (2, Form::ExactEnd) => vals.push(0), // form b: Shift 1 as pad
                    (2, _) => vals.push(1),              // dangling Shift 2
                    (_, _) => {
                        vals.push(1);
                        vals.push(30); // dangling Shift 2 + Upper Shift
                    }
                }
                for t in vals.chunks(3) {
                    pack3([t[0], t[1], t[2]], &mut cw);
                }
                match seg.form {
                    Form::Unlatch => cw.push(254),
                    Form::ExactEnd => {}
                    Form::ImpliedAscii => {
                        ascii_into(&mut cw, &s[seg.to..]);
                        covered = n;
                    }
                    other => return Err(format!("form {:?} does not belong to {:?}", other, seg.mode)),
                }
            }
            (Mode::Edifact, form) => {
                cw.push(240);
                let mut vals: Vec<u8> = run.iter().map(|c| c & 0x3f).collect();
                if form == Form::Unlatch {
                    vals.push(31);
                }
                for grp in vals.chunks(4) {
                    let mut bits: u32 = 0;
                    for (q, v) in grp.iter().enumerate() {
                        bits |= (*v as u32) << (18 - 6 * q);
                    }
                    let nbytes = if grp.len() == 4 { 3 } else { grp.len() };
                    for b in 0..nbytes {
                        cw.push((bits >> (16 - 8 * b)) as u8);
                    }
                }
                if form == Form::EdifactTail {
                    ascii_into(&mut cw, &s[seg.to..]);
                    covered = n;
                }
            }
            (Mode::Base256, form) => {
                cw.push(231);
                let l = run.len();
                let mut field: Vec<u8> = Vec::new();
                if form == Form::B256ToEnd {
                    field.push(0);
                } else if l <= 249 {
                    field.push(l as u8);
                } else {
                    field.push((l / 250 + 249) as u8);
                    field.push((l % 250) as u8);
                }
                for b in field.iter().chain(run.iter()) {
                    let pos = cw.len() + 1;
                    cw.push(rand255(*b, pos));
                }
            }
            (m, f) => return Err(format!("unexpected segment {:?} {:?}", m, f)),
        }
    }
    if covered != n {
        return Err("witness does not cover the input".into());
    }
    if cw.len() > cap {
        return Err(format!("witness needs {} codewords, capacity {}", cw.len(), cap));
    }
    if cw.len() < cap {
        cw.push(129);
        while cw.len() < cap {
            let pos = cw.len() + 1;
            cw.push(rand253(pos));
        }
    }
    Ok(cw)
}

// ---------------------------------------------------------------------------------------------
// explicit scripts
// ---------------------------------------------------------------------------------------------

#[derive(Clone, Copy, Debug, PartialEq, Eq)]
pub struct Seg {
    pub mode: Mode,
    /// number of input characters carried by this run
    pub len: usize,
    /// C40/Text/X12/EDIFACT: terminate with an explicit unlatch.
    /// ASCII: combine digit pairs. Base256: explicit length (false = length 0, to the end).
    pub flag: bool,
}

#[derive(Clone, Copy, Debug, PartialEq, Eq, Hash, PartialOrd, Ord)]
pub enum Skip {
    /// a character is not encodable in the mode of its run
    NotEncodable,
    /// X12 run not a multiple of three / C40 run with dangling values in the strict tier
    Incomplete,
    /// a termination without unlatch that is not at the end of the data
    BadTermination,
    /// no admissible capacity among the candidates
    NoCapacity,
}

#[derive(Clone, Debug)]
pub struct Raw {
    /// unpadded stream
    pub cw: Vec<u8>,
    /// capacity must be exactly this
    pub cap_eq: Option<usize>,
    /// capacity must be at most this
    pub cap_le: usize,
    /// capacity must be at least this
    pub cap_ge: usize,
    /// the stream ends in a mode other than ASCII (only possible with cap_eq = len)
    pub open_end: bool,
}

/// Materialise the unpadded stream of a script (strict tier only) together with the
/// constraints it puts on the capacity of the symbol.
pub fn build_raw(header: &[u8], s: &[u8], segs: &[Seg]) -> Result<Raw, Skip> {
    let mut cw: Vec<u8> = header.to_vec();
    let mut cap_eq: Option<usize> = None;
    let mut cap_le = usize::MAX;
    let mut cap_ge = 0usize;
    let mut open_end = false;
    let mut i = 0;
    let total: usize = segs.iter().map(|g| g.len).sum();
    assert_eq!(total, s.len());
    for (k, seg) in segs.iter().enumerate() {
        let run = &s[i..i + seg.len];
        i += seg.len;
        let last = k + 1 == segs.len();
        // what follows this run, in ASCII size, if the rest is a single final ASCII segment
        let rest_single_ascii: Option<usize> = if last {
            Some(0)
        } else if k + 2 == segs.len() && segs[k + 1].mode == Mode::Ascii {
            let rest = &s[i..];
            Some(if segs[k + 1].flag { ascii_size(rest) } else { rest.iter().map(|c| if *c < 128 { 1 } else { 2 }).sum() })
        } else {
            None
        };
        match seg.mode {
            Mode::Ascii => {
                let mut j = 0;
                while j < run.len() {
                    if seg.flag && j + 1 < run.len() && run[j].is_ascii_digit() && run[j + 1].is_ascii_digit() {
                        cw.push(130 + (run[j] - b'0') * 10 + (run[j + 1] - b'0'));
                        j += 2;
                    } else {
                        if run[j] >= 128 {
                            cw.push(235);
                            cw.push(run[j] - 128 + 1);
                        } else {
                            cw.push(run[j] + 1);
                        }
                        j += 1;
                    }
                }
            }
            Mode::C40 | Mode::Text | Mode::X12 => {
                cw.push(seg.mode.latch());
                let mut vals = Vec::with_capacity(run.len() * 2);
                for ch in run {
                    if seg.mode == Mode::X12 {
                        vals.push(x12_value(*ch).ok_or(Skip::NotEncodable)?);
                    } else {
                        c40_values(*ch, seg.mode == Mode::Text, &mut vals);
                    }
                }
                let rem = vals.len() % 3;
                if rem == 1 || (rem == 2 && seg.mode == Mode::X12) {
                    return Err(Skip::Incomplete);
                }
                if rem == 2 {
                    // only form (b): pad value Shift 1, at the exact end of symbol and data
                    if seg.flag || !last {
                        return Err(Skip::Incomplete);
                    }
                    vals.push(0);
                }
                for t in vals.chunks(3) {
                    pack3([t[0], t[1], t[2]], &mut cw);
                }
                if seg.flag {
                    cw.push(254);
                    // an explicit unlatch must not be the last codeword of the symbol (strict tier)
                    cap_ge = cap_ge.max(cw.len() + 1);
                } else {
                    match rest_single_ascii {
                        Some(0) => {
                            cap_eq = Some(cw.len());
                            open_end = true;
                        }
                        Some(1) => {
                            // literal form (d): one character that is a single value in this mode
                            let rest = &s[i..];
                            let single = rest.len() == 1
                                && match seg.mode {
                                    Mode::X12 => true,
                                    m => c40_nvals(rest[0], m == Mode::Text) == 1,
                                };
                            if !single {
                                return Err(Skip::BadTermination);
                            }
                            cap_eq = Some(cw.len() + 1);
                        }
                        _ => return Err(Skip::BadTermination),
                    }
                }
            }
            Mode::Edifact => {
                cw.push(240);
                if run.iter().any(|c| !edifact_ok(*c)) {
                    return Err(Skip::NotEncodable);
                }
                let start = cw.len();
                let mut vals: Vec<u8> = run.iter().map(|c| c & 0x3f).collect();
                if seg.flag {
                    vals.push(31);
                } else {
                    // end-of-symbol rule: only at a group boundary with <= 2 codewords left,
                    // the rest (at most one final ASCII segment) follows without unlatch
                    if vals.len() % 4 != 0 {
                        return Err(Skip::BadTermination);
                    }
                    match rest_single_ascii {
                        Some(sz) if sz <= 2 => {
                            let pos = start + 3 * vals.len() / 4;
                            cap_le = cap_le.min(pos + 2);
                            let _ = sz;
                        }
                        _ => return Err(Skip::BadTermination),
                    }
                }
                let groups = (vals.len() + 3) / 4;
                for g in 0..groups {
                    // every group that is read as EDIFACT needs three codewords of symbol left
                    cap_ge = cap_ge.max(start + 3 * g + 3);
                    let grp = &vals[4 * g..(4 * g + 4).min(vals.len())];
                    let mut bits: u32 = 0;
                    for (q, v) in grp.iter().enumerate() {
                        bits |= (*v as u32) << (18 - 6 * q);
                    }
                    let nbytes = if grp.len() == 4 { 3 } else { grp.len() };
                    for b in 0..nbytes {
                        cw.push((bits >> (16 - 8 * b)) as u8);
                    }
                }
            }
            Mode::Base256 => {
                cw.push(231);
                let l = run.len();
                if l == 0 || l > 1555 {
                    return Err(Skip::NotEncodable);
                }
                let mut field: Vec<u8> = Vec::new();
                if seg.flag {
                    if l <= 249 {
                        field.push(l as u8);
                    } else {
                        field.push((l / 250 + 249) as u8);
                        field.push((l % 250) as u8);
                    }
                } else {
                    if !last {
                        return Err(Skip::BadTermination);
                    }
                    field.push(0);
                }
                for b in field.iter().chain(run.iter()) {
                    let pos = cw.len() + 1;
                    cw.push(rand255(*b, pos));
                }
                if !seg.flag {
                    cap_eq = Some(cw.len());
                }
            }
        }
    }
    cap_ge = cap_ge.max(cw.len());
    Ok(Raw { cw, cap_eq, cap_le, cap_ge, open_end })
}

impl Raw {
    pub fn admits(&self, cap: usize) -> bool {
        cap >= self.cap_ge && cap <= self.cap_le && self.cap_eq.map_or(true, |c| c == cap)
    }
    /// Pad to the capacity (which must be admissible).
    pub fn padded(&self, cap: usize) -> Vec<u8> {
        assert!(self.admits(cap));
        let mut cw = self.cw.clone();
        if cw.len() < cap {
            assert!(!self.open_end);
            cw.push(129);
            while cw.len() < cap {
                let pos = cw.len() + 1;
                cw.push(rand253(pos));
            }
        }
        cw
    }
}

pub fn self_check() -> Result<(), String> {
    use super::decoder::decode;
    // every byte value survives the value tables of both C40 and Text (through R5)
    for text in [false, true] {
        let mode = if text { Mode::Text } else { Mode::C40 };
        for ch in 0..=255u8 {
            let n = c40_nvals(ch, text);
            // build a run of 3 copies so that the number of values is a multiple of 3
            let s = [ch, ch, ch];
            let raw = build_raw(&[], &s, &[Seg { mode, len: 3, flag: true }]).map_err(|e| format!("{:?}", e))?;
            let cw = raw.padded(raw.cw.len() + 2);
            let p = decode(&cw)?;
            if p.out != s || n == 0 {
                return Err(format!("c40 tables: byte {} text {}: {:?}", ch, text, p.out));
            }
        }
    }
    // EDIFACT, X12, Base256, ASCII
    let s = b"AB 12*>\r";
    for (mode, flag, st) in [
        (Mode::Edifact, true, &b"AB 12*>^"[..]),
        (Mode::X12, true, &b"AB 12*>\r\r"[..]),
        (Mode::Base256, true, &s[..]),
        (Mode::Ascii, true, &s[..]),
        (Mode::Ascii, false, &s[..]),
    ] {
        let raw = build_raw(&[], st, &[Seg { mode, len: st.len(), flag }]).map_err(|e| format!("{:?}", e))?;
        let cap = raw.cap_ge.max(raw.cw.len()) + 3;
        let p = decode(&raw.padded(cap))?;
        if p.out != st {
            return Err(format!("{:?} round trip: {:?}", mode, p.out));
        }
    }
    // golden vectors from ISO/IEC 16022: "123456" -> 142 164 186; EDIFACT example "DATA" is
    // not in the standard, but the C40 example "AIM" -> 91 11 is
    let raw = build_raw(&[], b"AIM", &[Seg { mode: Mode::C40, len: 3, flag: false }]).unwrap();
    if raw.cw != vec![230, 91, 11] || raw.cap_eq != Some(3) {
        return Err("AIM".into());
    }
    let raw = build_raw(&[], b"123456", &[Seg { mode: Mode::Ascii, len: 6, flag: true }]).unwrap();
    if raw.cw != vec![142, 164, 186] {
        return Err("123456".into());
    }
    // feasibility: "123456" needs 3 codewords
    let mut st = Search::default();
    if feasible(b"123456", 0x3f, 2, 0, Tier::Lenient, &mut st) || !feasible(b"123456", 0x3f, 3, 0, Tier::Strict, &mut st) {
        return Err("feasible 123456".into());
    }
    Ok(())
}
