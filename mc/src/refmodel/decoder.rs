//! R5 — independent decoder for ISO/IEC 16022 data codeword streams.
//!
//! Input is the *complete* data codeword vector of a symbol (length = capacity):
//! the end-of-symbol rules of 5.2.5.2, 5.2.7.2 and 5.2.8.2 depend on the number
//! of codewords left in the symbol. The result is a parse: decoded bytes, the
//! mode that carried each byte, the latches, ECIs, macro/FNC1 header, first pad.
//!
//! Leniency decisions (DESIGN.md §4 R5, §8):
//! * a shift / upper shift left dangling at the end of a C40/Text run is a pad;
//! * an explicit Unlatch (254) as the very last codeword of the symbol directly
//!   after C40/Text/X12 pairs is accepted;
//! * FNC1 (232) in first position is the GS1 marker, elsewhere it decodes to GS.

#[derive(Clone, Copy, PartialEq, Eq, Debug, Hash, PartialOrd, Ord)]
pub enum Mode {
    Ascii = 0,
    C40 = 1,
    Text = 2,
    X12 = 3,
    Edifact = 4,
    Base256 = 5,
}

pub const ALL_MODES: [Mode; 6] =
    [Mode::Ascii, Mode::C40, Mode::Text, Mode::X12, Mode::Edifact, Mode::Base256];

impl Mode {
    pub fn bit(self) -> u8 {
        1 << self as u8
    }
    pub fn name(self) -> &'static str {
        ["ASCII", "C40", "Text", "X12", "EDIFACT", "Base256"][self as usize]
    }
    pub fn latch(self) -> u8 {
        match self {
            Mode::Ascii => 254,
            Mode::C40 => 230,
            Mode::Base256 => 231,
            Mode::X12 => 238,
            Mode::Text => 239,
            Mode::Edifact => 240,
        }
    }
}

/// How a non-ASCII run ended.
#[derive(Clone, Copy, PartialEq, Eq, Debug, Hash, PartialOrd, Ord)]
pub enum RunEnd {
    /// explicit unlatch (254, or EDIFACT value 31)
    Unlatch,
    /// explicit 254 in the last codeword of the symbol
    UnlatchAtEnd,
    /// run ends exactly at the end of the symbol
    SymbolEnd,
    /// one codeword left after C40/Text/X12: implied unlatch, ASCII follows
    ImpliedOne,
    /// EDIFACT: one or two codewords left at a group boundary: ASCII follows
    EdifactTail,
    /// Base256 with explicit length
    B256Length,
    /// Base256 with length 0 (to the end of the symbol)
    B256ToEnd,
}

#[derive(Debug, Default, Clone)]
pub struct Parse {
    /// decoded message (macro header/trailer re-expanded)
    pub out: Vec<u8>,
    /// decoded bytes without macro envelope
    pub body: Vec<u8>,
    /// carrier mode of every byte of `body`
    pub carriers: Vec<Mode>,
    pub macro_cw: Option<u8>,
    pub fnc1_start: bool,
    /// (codeword index, mode) of every latch codeword
    pub latches: Vec<(usize, Mode)>,
    /// number of body bytes decoded before each latch
    pub latch_body_pos: Vec<usize>,
    pub run_ends: Vec<(Mode, RunEnd)>,
    /// (position in body, ECI number)
    pub eci: Vec<(usize, u32)>,
    pub pad_start: Option<usize>,
    /// number of dangling shift values that were ignored
    pub dangling: usize,
}

pub fn unrand255(c: u8, pos: usize) -> u8 {
    let r = ((149 * pos) % 255 + 1) as i32;
    let t = c as i32 - r;
    (if t < 0 { t + 256 } else { t }) as u8
}

pub fn rand255(v: u8, pos: usize) -> u8 {
    let r = ((149 * pos) % 255 + 1) as u32;
    let t = v as u32 + r;
    (if t > 255 { t - 256 } else { t }) as u8
}

/// 253-state randomised pad for (1-based) codeword position `pos`.
pub fn rand253(pos: usize) -> u8 {
    let r = ((149 * pos) % 253 + 1) as u32;
    let t = 129 + r;
    (if t > 254 { t - 254 } else { t }) as u8
}

pub const C40_BASE: &[u8] = b" 0123456789ABCDEFGHIJKLMNOPQRSTUVWXYZ";
pub const TEXT_BASE: &[u8] = b" 0123456789abcdefghijklmnopqrstuvwxyz";

/// Shift 2 set: value -> character
pub fn shift2_char(v: u8) -> Option<u8> {
    match v {
        0..=14 => Some(33 + v),       // ! .. /
        15..=21 => Some(58 + v - 15), // : .. @
        22..=26 => Some(91 + v - 22), // [ .. _
        _ => None,
    }
}

/// Shift 3 set: value -> character (C40: ` a..z { | } ~ DEL; Text: ` A..Z { | } ~ DEL)
pub fn shift3_char(v: u8, text: bool) -> Option<u8> {
    if v > 31 {
        return None;
    }
    let c = 96 + v;
    Some(if text && c.is_ascii_lowercase() { c - 32 } else { c })
}

pub fn x12_char(v: u8) -> Option<u8> {
    match v {
        0 => Some(13),
        1 => Some(42),
        2 => Some(62),
        3 => Some(32),
        4..=13 => Some(b'0' + v - 4),
        14..=39 => Some(b'A' + v - 14),
        _ => None,
    }
}

pub fn decode(cw: &[u8]) -> Result<Parse, String> {
    let n = cw.len();
    let mut p = Parse::default();
    let mut i = 0;
    if n > 0 && (cw[0] == 236 || cw[0] == 237) {
        p.macro_cw = Some(cw[0]);
        i = 1;
    } else if n > 0 && cw[0] == 232 {
        p.fnc1_start = true;
        i = 1;
    }
    let mut mode = Mode::Ascii;
    let mut upper = false;
    macro_rules! emit {
        ($b:expr, $m:expr) => {{
            p.body.push($b);
            p.carriers.push($m);
        }};
    }
    'outer: while i < n {
        match mode {
            Mode::Ascii => {
                let c = cw[i];
                match c {
                    1..=128 => {
                        let b = c - 1;
                        if upper {
                            emit!(b + 128, Mode::Ascii);
                            upper = false;
                        } else {
                            emit!(b, Mode::Ascii);
                        }
                        i += 1;
                    }
                    129 => {
                        if upper {
                            return Err("pad after upper shift".into());
                        }
                        p.pad_start = Some(i);
                        for j in i + 1..n {
                            if cw[j] != rand253(j + 1) {
                                return Err(format!("bad pad at {}", j));
                            }
                        }
                        break 'outer;
                    }
                    130..=229 => {
                        if upper {
                            return Err("digits after upper shift".into());
                        }
                        let d = c - 130;
                        emit!(b'0' + d / 10, Mode::Ascii);
                        emit!(b'0' + d % 10, Mode::Ascii);
                        i += 1;
                    }
                    230 | 231 | 238 | 239 | 240 => {
                        if upper {
                            return Err("latch after upper shift".into());
                        }
                        mode = match c {
                            230 => Mode::C40,
                            231 => Mode::Base256,
                            238 => Mode::X12,
                            239 => Mode::Text,
                            _ => Mode::Edifact,
                        };
                        p.latches.push((i, mode));
                        p.latch_body_pos.push(p.body.len());
                        i += 1;
                    }
                    232 => {
                        if upper {
                            return Err("fnc1 after upper shift".into());
                        }
                        emit!(29, Mode::Ascii);
                        i += 1;
                    }
                    235 => {
                        if upper {
                            return Err("double upper shift".into());
                        }
                        upper = true;
                        i += 1;
                    }
                    241 => {
                        if upper {
                            return Err("eci after upper shift".into());
                        }
                        i += 1;
                        let (v, used) = read_eci(&cw[i..])?;
                        i += used;
                        p.eci.push((p.body.len(), v));
                    }
                    _ => return Err(format!("illegal ascii codeword {} at {}", c, i)),
                }
            }
            Mode::C40 | Mode::Text | Mode::X12 => {
                let this = mode;
                let text = mode == Mode::Text;
                let mut shift = 0u8;
                let mut up = false;
                let end;
                loop {
                    let rem = n - i;
                    if rem == 0 {
                        end = RunEnd::SymbolEnd;
                        break;
                    }
                    if rem == 1 {
                        // a single codeword at the end of the symbol is ASCII encoded
                        // (implied unlatch); an explicit unlatch there is tolerated
                        if cw[i] == 254 {
                            i += 1;
                            end = RunEnd::UnlatchAtEnd;
                        } else {
                            end = RunEnd::ImpliedOne;
                        }
                        mode = Mode::Ascii;
                        break;
                    }
                    if cw[i] == 254 {
                        i += 1;
                        mode = Mode::Ascii;
                        end = RunEnd::Unlatch;
                        break;
                    }
                    let v = cw[i] as u32 * 256 + cw[i + 1] as u32;
                    if v == 0 {
                        return Err("c40 pair value 0".into());
                    }
                    let v = v - 1;
                    if v / 1600 >= 40 {
                        return Err("c40 pair too large".into());
                    }
                    let vals = [(v / 1600) as u8, ((v % 1600) / 40) as u8, (v % 40) as u8];
                    i += 2;
                    for val in vals {
                        if this == Mode::X12 {
                            let ch = x12_char(val).ok_or("x12 value")?;
                            emit!(ch, Mode::X12);
                            continue;
                        }
                        let ch = match shift {
                            0 => match val {
                                0..=2 => {
                                    shift = val + 1;
                                    continue;
                                }
                                3..=39 => (if text { TEXT_BASE } else { C40_BASE })[val as usize - 3],
                                _ => return Err("c40 base value".into()),
                            },
                            1 => {
                                if val > 31 {
                                    return Err("c40 shift1 value".into());
                                }
                                val
                            }
                            2 => {
                                if val == 30 {
                                    if up {
                                        return Err("double upper shift in c40".into());
                                    }
                                    up = true;
                                    shift = 0;
                                    continue;
                                }
                                if val == 27 {
                                    if up {
                                        return Err("fnc1 after upper shift in c40".into());
                                    }
                                    shift = 0;
                                    emit!(29, this); // FNC1 -> GS
                                    continue;
                                }
                                shift2_char(val).ok_or("c40 shift2 value")?
                            }
                            _ => shift3_char(val, text).ok_or("c40 shift3 value")?,
                        };
                        shift = 0;
                        if up {
                            emit!(ch + 128, this);
                            up = false;
                        } else {
                            emit!(ch, this);
                        }
                    }
                }
                if end == RunEnd::SymbolEnd {
                    mode = Mode::Ascii;
                }
                // a dangling shift / upper shift before the unlatch or the end acts as a pad
                if shift != 0 {
                    p.dangling += 1;
                }
                if up {
                    p.dangling += 1;
                }
                p.run_ends.push((this, end));
            }
            Mode::Edifact => {
                let end;
                loop {
                    let rem = n - i;
                    if rem == 0 {
                        end = RunEnd::SymbolEnd;
                        break;
                    }
                    if rem <= 2 {
                        end = RunEnd::EdifactTail;
                        break;
                    }
                    let bits = (cw[i] as u32) << 16 | (cw[i + 1] as u32) << 8 | cw[i + 2] as u32;
                    let mut unl = None;
                    for k in 0..4 {
                        let val = ((bits >> (18 - 6 * k)) & 0x3f) as u8;
                        if val == 31 {
                            unl = Some(k);
                            break;
                        }
                        let ch = if val & 0x20 != 0 { val } else { val | 0x40 };
                        emit!(ch, Mode::Edifact);
                    }
                    if let Some(k) = unl {
                        i += [1, 2, 3, 3][k as usize];
                        end = RunEnd::Unlatch;
                        break;
                    }
                    i += 3;
                }
                mode = Mode::Ascii;
                p.run_ends.push((Mode::Edifact, end));
            }
            Mode::Base256 => {
                let d1 = unrand255(cw[i], i + 1) as usize;
                i += 1;
                let (len, end) = if d1 == 0 {
                    (n - i, RunEnd::B256ToEnd)
                } else if d1 < 250 {
                    (d1, RunEnd::B256Length)
                } else {
                    let d2 = unrand255(*cw.get(i).ok_or("b256 len truncated")?, i + 1) as usize;
                    i += 1;
                    if d2 > 249 {
                        return Err("b256 d2 > 249".into());
                    }
                    (250 * (d1 - 249) + d2, RunEnd::B256Length)
                };
                if i + len > n {
                    return Err("b256 runs past end".into());
                }
                for _ in 0..len {
                    emit!(unrand255(cw[i], i + 1), Mode::Base256);
                    i += 1;
                }
                mode = Mode::Ascii;
                p.run_ends.push((Mode::Base256, end));
            }
        }
    }
    if upper {
        return Err("dangling upper shift".into());
    }
    if let Some(m) = p.macro_cw {
        p.out.extend_from_slice(if m == 236 { b"[)>\x1e05\x1d" } else { b"[)>\x1e06\x1d" });
        p.out.extend_from_slice(&p.body);
        p.out.extend_from_slice(b"\x1e\x04");
    } else {
        p.out = p.body.clone();
    }
    Ok(p)
}

/// Read an ECI designator (the codewords after 241). Returns (number, codewords used).
/// ISO/IEC 16022 5.2.4.7 / Table 6.
pub fn read_eci(cw: &[u8]) -> Result<(u32, usize), String> {
    let c1 = *cw.first().ok_or("eci truncated")? as u32;
    match c1 {
        1..=127 => Ok((c1 - 1, 1)),
        128..=191 => {
            let c2 = *cw.get(1).ok_or("eci truncated")? as u32;
            if !(1..=254).contains(&c2) {
                return Err("eci c2".into());
            }
            Ok(((c1 - 128) * 254 + (c2 - 1) + 127, 2))
        }
        192..=207 => {
            let c2 = *cw.get(1).ok_or("eci truncated")? as u32;
            let c3 = *cw.get(2).ok_or("eci truncated")? as u32;
            if !(1..=254).contains(&c2) || !(1..=254).contains(&c3) {
                return Err("eci c2/c3".into());
            }
            Ok(((c1 - 192) * 64516 + (c2 - 1) * 254 + (c3 - 1) + 16383, 3))
        }
        _ => Err("eci c1".into()),
    }
}

/// Write an ECI designator for a number 0..=999999 (closed formulas of Table 6).
pub fn write_eci(n: u32) -> Vec<u8> {
    assert!(n <= 999_999);
    if n <= 126 {
        vec![(n + 1) as u8]
    } else if n <= 16382 {
        vec![((n - 127) / 254 + 128) as u8, ((n - 127) % 254 + 1) as u8]
    } else {
        let m = n - 16383;
        vec![(m / 64516 + 192) as u8, ((m / 254) % 254 + 1) as u8, (m % 254 + 1) as u8]
    }
}

pub fn self_check() -> Result<(), String> {
    // ISO/IEC 16022 Annex examples
    let p = decode(&[142, 164, 186])?;
    if p.out != b"123456" {
        return Err("123456".into());
    }
    // "A1B2C3D4E5F6G7H8I9J0K1L2" in C40 (standard 5.2.5 example pair for "AIM": 91 11)
    let p = decode(&[230, 91, 11])?;
    if p.out != b"AIM" || p.carriers != vec![Mode::C40; 3] {
        return Err(format!("AIM: {:?}", p.out));
    }
    for n in [0u32, 126, 127, 16382, 16383, 999_999] {
        let w = write_eci(n);
        let (m, used) = read_eci(&w)?;
        if m != n || used != w.len() {
            return Err(format!("eci {}", n));
        }
    }
    if write_eci(999_999).len() != 3 || write_eci(16382) != vec![191, 254] || write_eci(16383) != vec![192, 1, 1] {
        return Err("eci forms".into());
    }
    // pad sequence of the empty 10x10 symbol: 129 175 70 (golden vector known from zxing/the standard)
    let p = decode(&[129, 175, 70])?;
    if p.pad_start != Some(0) || !p.out.is_empty() {
        return Err("pad".into());
    }
    // Base256 randomisation is an involution pair
    for pos in 1..600 {
        for v in [0u8, 1, 100, 255] {
            if unrand255(rand255(v, pos), pos) != v {
                return Err("rand255".into());
            }
        }
    }
    Ok(())
}
