//! R8 — even-odd scanline rasteriser for relative path segments with SVG
//! semantics, and a parser for the Unicode half-block rendering.

#[derive(Clone, Copy, Debug, PartialEq, Eq)]
pub enum Seg {
    Move(i32, i32),
    Horizontal(i32),
    Vertical(i32),
    Close,
}

#[derive(Debug)]
pub struct Raster {
    /// filled[r * w + c]
    pub filled: Vec<bool>,
    pub subpaths: usize,
}

/// Interpret the path starting at (0, 0) and fill it with the even-odd rule on a w x h grid.
/// Structural rules checked on the way (each returns Err):
/// non-zero segment lengths, every sub-path ends with Close and its closing line has zero
/// length or is axis parallel, Move only after Close (relative to the start of the sub-path
/// just closed), all vertices inside [0,w] x [0,h].
pub fn rasterise(segs: &[Seg], w: usize, h: usize) -> Result<Raster, String> {
    let (wi, hi) = (w as i32, h as i32);
    // parity of vertical unit edges: vedge[r * (w + 1) + x] for the edge from (x, r) to (x, r + 1)
    let mut vedge = vec![false; (w + 1) * h.max(1)];
    let mut x = 0i32;
    let mut y = 0i32;
    let mut start = (0i32, 0i32);
    let mut open = false; // a sub-path with at least one draw segment is open
    let mut after_close = false;
    let mut subpaths = 0;
    let inside = |x: i32, y: i32| x >= 0 && x <= wi && y >= 0 && y <= hi;
    let mut add_vertical = |x: i32, y0: i32, y1: i32, vedge: &mut Vec<bool>| {
        let (a, b) = if y0 < y1 { (y0, y1) } else { (y1, y0) };
        for r in a..b {
            let i = r as usize * (w + 1) + x as usize;
            vedge[i] = !vedge[i];
        }
    };
    if segs.is_empty() {
        return Ok(Raster { filled: vec![false; w * h], subpaths: 0 });
    }
    for (k, s) in segs.iter().enumerate() {
        match *s {
            Seg::Move(dx, dy) => {
                if !after_close {
                    return Err(format!("segment {}: Move not directly after Close", k));
                }
                // after Close the current point is the start of the sub-path just closed
                x += dx;
                y += dy;
                if !inside(x, y) {
                    return Err(format!("segment {}: Move leaves the bounding box", k));
                }
                start = (x, y);
                after_close = false;
            }
            Seg::Horizontal(d) => {
                if d == 0 {
                    return Err(format!("segment {}: zero length", k));
                }
                x += d;
                if !inside(x, y) {
                    return Err(format!("segment {}: leaves the bounding box", k));
                }
                open = true;
                after_close = false;
            }
            Seg::Vertical(d) => {
                if d == 0 {
                    return Err(format!("segment {}: zero length", k));
                }
                add_vertical(x, y, y + d, &mut vedge);
                y += d;
                if !inside(x, y) {
                    return Err(format!("segment {}: leaves the bounding box", k));
                }
                open = true;
                after_close = false;
            }
            Seg::Close => {
                if !open {
                    return Err(format!("segment {}: Close of an empty sub-path", k));
                }
                if x != start.0 && y != start.1 {
                    return Err(format!("segment {}: closing line is not axis parallel", k));
                }
                if x == start.0 {
                    add_vertical(x, y, start.1, &mut vedge);
                }
                x = start.0;
                y = start.1;
                open = false;
                after_close = true;
                subpaths += 1;
            }
        }
    }
    if open || !after_close {
        return Err("path does not end with Close".into());
    }
    let mut filled = vec![false; w * h];
    for r in 0..h {
        let mut inside_now = false;
        for c in 0..w {
            if vedge[r * (w + 1) + c] {
                inside_now = !inside_now;
            }
            filled[r * w + c] = inside_now;
        }
        // the right-most edge must close the row
        if vedge[r * (w + 1) + w] {
            inside_now = !inside_now;
        }
        if inside_now {
            return Err(format!("row {} is not closed", r));
        }
    }
    Ok(Raster { filled, subpaths })
}

/// Parse the Unicode half-block rendering back into a bool grid (rows x cols as printed:
/// every text line carries two pixel rows).
pub fn parse_unicode(text: &str) -> Result<(Vec<bool>, usize, usize), String> {
    let mut rows: Vec<Vec<bool>> = Vec::new();
    let mut width = None;
    for line in text.split_terminator('\n') {
        let mut top = Vec::new();
        let mut bot = Vec::new();
        for ch in line.chars() {
            let (t, b) = match ch {
                ' ' => (false, false),
                '\u{2584}' => (false, true),
                '\u{2580}' => (true, false),
                '\u{2588}' => (true, true),
                other => return Err(format!("unexpected character {:?}", other)),
            };
            top.push(t);
            bot.push(b);
        }
        match width {
            None => width = Some(top.len()),
            Some(w) if w != top.len() => return Err("ragged lines".into()),
            _ => {}
        }
        rows.push(top);
        rows.push(bot);
    }
    let w = width.unwrap_or(0);
    let h = rows.len();
    Ok((rows.into_iter().flatten().collect(), w, h))
}

pub fn self_check() -> Result<(), String> {
    // a unit square
    let r = rasterise(&[Seg::Horizontal(1), Seg::Vertical(1), Seg::Horizontal(-1), Seg::Close], 2, 2)?;
    if r.filled != vec![true, false, false, false] {
        return Err("unit square".into());
    }
    // two squares touching at a corner, drawn as two sub-paths
    let r = rasterise(
        &[
            Seg::Horizontal(1), Seg::Vertical(1), Seg::Horizontal(-1), Seg::Close,
            Seg::Move(1, 1), Seg::Horizontal(1), Seg::Vertical(1), Seg::Horizontal(-1), Seg::Close,
        ],
        2,
        2,
    )?;
    if r.filled != vec![true, false, false, true] || r.subpaths != 2 {
        return Err("two squares".into());
    }
    // ring: outer 3x3 and inner hole, even-odd
    let r = rasterise(
        &[
            Seg::Horizontal(3), Seg::Vertical(3), Seg::Horizontal(-3), Seg::Close,
            Seg::Move(1, 1), Seg::Horizontal(1), Seg::Vertical(1), Seg::Horizontal(-1), Seg::Close,
        ],
        3,
        3,
    )?;
    if r.filled != vec![true, true, true, true, false, true, true, true, true] {
        return Err("ring".into());
    }
    if rasterise(&[Seg::Horizontal(1), Seg::Vertical(1)], 2, 2).is_ok() {
        return Err("unclosed path accepted".into());
    }
    if rasterise(&[Seg::Horizontal(3), Seg::Vertical(1), Seg::Horizontal(-3), Seg::Close], 2, 2).is_ok() {
        return Err("out of box accepted".into());
    }
    let (g, w, h) = parse_unicode(" \u{2584}\n\u{2588}\u{2580}\n")?;
    if (w, h) != (2, 4) || g != vec![false, false, false, true, true, true, true, false] {
        return Err("unicode parse".into());
    }
    Ok(())
}
