//! R3 — module placement: port of the program in ISO/IEC 16022:2006 Annex F.1
//! with the row wrap added by ISO/IEC 21471:2020 for the DMRE formats.
//!
//! `place(nrow, ncol)` returns for every cell of the mapping matrix either
//! `Cell::Bit(chr, bit)` (chr from 1, bit 1 = most significant .. 8) or the fixed
//! pattern `Cell::Fixed(dark)`.

#[derive(Clone, Copy, Debug, PartialEq, Eq)]
pub enum Cell {
    Unset,
    Bit(u16, u8),
    Fixed(bool),
}

struct P {
    nrow: i32,
    ncol: i32,
    array: Vec<Cell>,
}

impl P {
    fn module(&mut self, mut row: i32, mut col: i32, chr: u16, bit: u8) {
        if row < 0 {
            row += self.nrow;
            col += 4 - ((self.nrow + 4) % 8);
        }
        if col < 0 {
            col += self.ncol;
            row += 4 - ((self.ncol + 4) % 8);
        }
        // ISO/IEC 21471
        if row >= self.nrow {
            row -= self.nrow;
        }
        self.array[(row * self.ncol + col) as usize] = Cell::Bit(chr, bit);
    }

    fn utah(&mut self, row: i32, col: i32, chr: u16) {
        self.module(row - 2, col - 2, chr, 1);
        self.module(row - 2, col - 1, chr, 2);
        self.module(row - 1, col - 2, chr, 3);
        self.module(row - 1, col - 1, chr, 4);
        self.module(row - 1, col, chr, 5);
        self.module(row, col - 2, chr, 6);
        self.module(row, col - 1, chr, 7);
        self.module(row, col, chr, 8);
    }

    fn corner1(&mut self, chr: u16) {
        let (nrow, ncol) = (self.nrow, self.ncol);
        self.module(nrow - 1, 0, chr, 1);
        self.module(nrow - 1, 1, chr, 2);
        self.module(nrow - 1, 2, chr, 3);
        self.module(0, ncol - 2, chr, 4);
        self.module(0, ncol - 1, chr, 5);
        self.module(1, ncol - 1, chr, 6);
        self.module(2, ncol - 1, chr, 7);
        self.module(3, ncol - 1, chr, 8);
    }

    fn corner2(&mut self, chr: u16) {
        let (nrow, ncol) = (self.nrow, self.ncol);
        self.module(nrow - 3, 0, chr, 1);
        self.module(nrow - 2, 0, chr, 2);
        self.module(nrow - 1, 0, chr, 3);
        self.module(0, ncol - 4, chr, 4);
        self.module(0, ncol - 3, chr, 5);
        self.module(0, ncol - 2, chr, 6);
        self.module(0, ncol - 1, chr, 7);
        self.module(1, ncol - 1, chr, 8);
    }

    fn corner3(&mut self, chr: u16) {
        let (nrow, ncol) = (self.nrow, self.ncol);
        self.module(nrow - 3, 0, chr, 1);
        self.module(nrow - 2, 0, chr, 2);
        self.module(nrow - 1, 0, chr, 3);
        self.module(0, ncol - 2, chr, 4);
        self.module(0, ncol - 1, chr, 5);
        self.module(1, ncol - 1, chr, 6);
        self.module(2, ncol - 1, chr, 7);
        self.module(3, ncol - 1, chr, 8);
    }

    fn corner4(&mut self, chr: u16) {
        let (nrow, ncol) = (self.nrow, self.ncol);
        self.module(nrow - 1, 0, chr, 1);
        self.module(nrow - 1, ncol - 1, chr, 2);
        self.module(0, ncol - 3, chr, 3);
        self.module(0, ncol - 2, chr, 4);
        self.module(0, ncol - 1, chr, 5);
        self.module(1, ncol - 3, chr, 6);
        self.module(1, ncol - 2, chr, 7);
        self.module(1, ncol - 1, chr, 8);
    }

    fn unset(&self, row: i32, col: i32) -> bool {
        self.array[(row * self.ncol + col) as usize] == Cell::Unset
    }
}

pub fn place(nrow: usize, ncol: usize) -> Vec<Cell> {
    let mut p = P { nrow: nrow as i32, ncol: ncol as i32, array: vec![Cell::Unset; nrow * ncol] };
    let (nr, nc) = (p.nrow, p.ncol);
    let mut chr: u16 = 1;
    let mut row: i32 = 4;
    let mut col: i32 = 0;
    loop {
        if row == nr && col == 0 {
            p.corner1(chr);
            chr += 1;
        }
        if row == nr - 2 && col == 0 && nc % 4 != 0 {
            p.corner2(chr);
            chr += 1;
        }
        if row == nr - 2 && col == 0 && nc % 8 == 4 {
            p.corner3(chr);
            chr += 1;
        }
        if row == nr + 4 && col == 2 && nc % 8 == 0 {
            p.corner4(chr);
            chr += 1;
        }
        loop {
            if row < nr && col >= 0 && p.unset(row, col) {
                p.utah(row, col, chr);
                chr += 1;
            }
            row -= 2;
            col += 2;
            if !(row >= 0 && col < nc) {
                break;
            }
        }
        row += 1;
        col += 3;
        loop {
            if row >= 0 && col < nc && p.unset(row, col) {
                p.utah(row, col, chr);
                chr += 1;
            }
            row += 2;
            col -= 2;
            if !(row < nr && col >= 0) {
                break;
            }
        }
        row += 3;
        col += 1;
        if !(row < nr || col < nc) {
            break;
        }
    }
    // fixed pattern in the lower right corner
    if p.unset(nr - 1, nc - 1) {
        let n = nrow * ncol;
        p.array[n - 1] = Cell::Fixed(true);
        p.array[n - ncol - 2] = Cell::Fixed(true);
        p.array[n - 2] = Cell::Fixed(false);
        p.array[n - ncol - 1] = Cell::Fixed(false);
    }
    p.array
}

/// Every (chr, bit) with chr in 1..=n, bit in 1..=8 appears exactly once, nothing is unset.
pub fn check_bijection(cells: &[Cell], n_codewords: usize) -> Result<(), String> {
    let mut seen = vec![false; n_codewords * 8];
    let mut fixed = 0;
    for c in cells {
        match *c {
            Cell::Unset => return Err("unset module".into()),
            Cell::Fixed(_) => fixed += 1,
            Cell::Bit(chr, bit) => {
                if chr == 0 || chr as usize > n_codewords || bit == 0 || bit > 8 {
                    return Err(format!("out of range {}.{}", chr, bit));
                }
                let i = (chr as usize - 1) * 8 + bit as usize - 1;
                if seen[i] {
                    return Err(format!("{}.{} placed twice", chr, bit));
                }
                seen[i] = true;
            }
        }
    }
    if seen.iter().any(|s| !s) {
        return Err("a codeword bit is not placed".into());
    }
    if fixed != 0 && fixed != 4 {
        return Err("fixed pattern".into());
    }
    Ok(())
}

pub fn self_check() -> Result<(), String> {
    use super::symbols::SYMBOLS;
    for sy in SYMBOLS.iter() {
        let cells = place(sy.map_rows(), sy.map_cols());
        check_bijection(&cells, sy.total()).map_err(|e| format!("{}: {}", sy.name(), e))?;
        let fixed = cells.iter().filter(|c| matches!(c, Cell::Fixed(_))).count();
        if (fixed == 4) != sy.has_fixed_corner() {
            return Err(format!("{}: fixed corner", sy.name()));
        }
    }
    // first row of the 8x8 mapping matrix (10x10 symbol), ISO/IEC 16022 Figure F.1:
    // 2.1 2.2 3.6 3.7 3.8 4.3 4.4 4.5
    let c = place(8, 8);
    let want = [(2, 1), (2, 2), (3, 6), (3, 7), (3, 8), (4, 3), (4, 4), (4, 5)];
    for (j, w) in want.iter().enumerate() {
        if c[j] != Cell::Bit(w.0, w.1) {
            return Err(format!("10x10 row 0 col {}: {:?}", j, c[j]));
        }
    }
    // last row of Figure F.1: 7.7 7.8 3.3 3.4 3.5 4.1 4.2 7.6
    let want = [(7, 7), (7, 8), (3, 3), (3, 4), (3, 5), (4, 1), (4, 2), (7, 6)];
    for (j, w) in want.iter().enumerate() {
        if c[56 + j] != Cell::Bit(w.0, w.1) {
            return Err(format!("10x10 row 7 col {}: {:?}", j, c[56 + j]));
        }
    }
    Ok(())
}
