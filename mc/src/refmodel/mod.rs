//! Reference models R1..R8 (DESIGN.md §4).
//!
//! Nothing below this module may `use datamatrix`: the models are written from
//! ISO/IEC 16022:2006, ISO/IEC 21471:2020, ISO 8859-1/-9/-11, RFC 3629 and the
//! SVG path semantics, independently of the crate under test.
pub mod charset;
pub mod decoder;
pub mod encoder;
pub mod gf;
pub mod placement;
pub mod raster;
pub mod render;
pub mod symbols;
