//! R2 — symbol catalogue: ISO/IEC 16022:2006 Table 7 (24 square + 6 rectangular
//! symbols) and ISO/IEC 21471:2020 (18 DMRE symbols).

#[derive(Clone, Copy, Debug, PartialEq, Eq)]
pub struct Sym {
    /// module rows / columns of the whole symbol (finder included)
    pub rows: usize,
    pub cols: usize,
    /// number of data regions vertically / horizontally
    pub reg_v: usize,
    pub reg_h: usize,
    /// size of one data region (without its border)
    pub reg_rows: usize,
    pub reg_cols: usize,
    pub data: usize,
    pub ec: usize,
    pub blocks: usize,
    /// part of ISO/IEC 21471 (DMRE) and not of ISO/IEC 16022
    pub dmre: bool,
}

const fn s(
    rows: usize,
    cols: usize,
    reg_v: usize,
    reg_h: usize,
    reg_rows: usize,
    reg_cols: usize,
    data: usize,
    ec: usize,
    blocks: usize,
    dmre: bool,
) -> Sym {
    Sym { rows, cols, reg_v, reg_h, reg_rows, reg_cols, data, ec, blocks, dmre }
}

/// The 48 symbols; order: squares, ISO 16022 rectangles, DMRE rectangles.
#[rustfmt::skip]
pub const SYMBOLS: [Sym; 48] = [
    // ISO/IEC 16022 Table 7, square symbols
    s(10, 10, 1, 1, 8, 8, 3, 5, 1, false),
    s(12, 12, 1, 1, 10, 10, 5, 7, 1, false),
    s(14, 14, 1, 1, 12, 12, 8, 10, 1, false),
    s(16, 16, 1, 1, 14, 14, 12, 12, 1, false),
    s(18, 18, 1, 1, 16, 16, 18, 14, 1, false),
    s(20, 20, 1, 1, 18, 18, 22, 18, 1, false),
    s(22, 22, 1, 1, 20, 20, 30, 20, 1, false),
    s(24, 24, 1, 1, 22, 22, 36, 24, 1, false),
    s(26, 26, 1, 1, 24, 24, 44, 28, 1, false),
    s(32, 32, 2, 2, 14, 14, 62, 36, 1, false),
    s(36, 36, 2, 2, 16, 16, 86, 42, 1, false),
    s(40, 40, 2, 2, 18, 18, 114, 48, 1, false),
    s(44, 44, 2, 2, 20, 20, 144, 56, 1, false),
    s(48, 48, 2, 2, 22, 22, 174, 68, 1, false),
    s(52, 52, 2, 2, 24, 24, 204, 84, 2, false),
    s(64, 64, 4, 4, 14, 14, 280, 112, 2, false),
    s(72, 72, 4, 4, 16, 16, 368, 144, 4, false),
    s(80, 80, 4, 4, 18, 18, 456, 192, 4, false),
    s(88, 88, 4, 4, 20, 20, 576, 224, 4, false),
    s(96, 96, 4, 4, 22, 22, 696, 272, 4, false),
    s(104, 104, 4, 4, 24, 24, 816, 336, 6, false),
    s(120, 120, 6, 6, 18, 18, 1050, 408, 6, false),
    s(132, 132, 6, 6, 20, 20, 1304, 496, 8, false),
    s(144, 144, 6, 6, 22, 22, 1558, 620, 10, false),
    // ISO/IEC 16022 Table 7, rectangular symbols
    s(8, 18, 1, 1, 6, 16, 5, 7, 1, false),
    s(8, 32, 1, 2, 6, 14, 10, 11, 1, false),
    s(12, 26, 1, 1, 10, 24, 16, 14, 1, false),
    s(12, 36, 1, 2, 10, 16, 22, 18, 1, false),
    s(16, 36, 1, 2, 14, 16, 32, 24, 1, false),
    s(16, 48, 1, 2, 14, 22, 49, 28, 1, false),
    // ISO/IEC 21471 (DMRE)
    s(8, 48, 1, 2, 6, 22, 18, 15, 1, true),
    s(8, 64, 1, 4, 6, 14, 24, 18, 1, true),
    s(8, 80, 1, 4, 6, 18, 32, 22, 1, true),
    s(8, 96, 1, 4, 6, 22, 38, 28, 1, true),
    s(8, 120, 1, 6, 6, 18, 49, 32, 1, true),
    s(8, 144, 1, 6, 6, 22, 63, 36, 1, true),
    s(12, 64, 1, 4, 10, 14, 43, 27, 1, true),
    s(12, 88, 1, 4, 10, 20, 64, 36, 1, true),
    s(16, 64, 1, 4, 14, 14, 62, 36, 1, true),
    s(20, 36, 1, 2, 18, 16, 44, 28, 1, true),
    s(20, 44, 1, 2, 18, 20, 56, 34, 1, true),
    s(20, 64, 1, 4, 18, 14, 84, 42, 1, true),
    s(22, 48, 1, 2, 20, 22, 72, 38, 1, true),
    s(24, 48, 1, 2, 22, 22, 80, 41, 1, true),
    s(24, 64, 1, 4, 22, 14, 108, 46, 1, true),
    s(26, 40, 1, 2, 24, 18, 70, 38, 1, true),
    s(26, 48, 1, 2, 24, 22, 90, 42, 1, true),
    s(26, 64, 1, 4, 24, 14, 118, 50, 1, true),
];

impl Sym {
    pub fn is_square(&self) -> bool {
        self.rows == self.cols
    }
    /// rows / columns of the mapping matrix (all data regions joined)
    pub fn map_rows(&self) -> usize {
        self.reg_v * self.reg_rows
    }
    pub fn map_cols(&self) -> usize {
        self.reg_h * self.reg_cols
    }
    pub fn total(&self) -> usize {
        self.data + self.ec
    }
    pub fn ec_per_block(&self) -> usize {
        self.ec / self.blocks
    }
    /// correction capacity per block
    pub fn t(&self) -> usize {
        self.ec_per_block() / 2
    }
    /// The four squares whose mapping matrix has four modules left over.
    pub fn has_fixed_corner(&self) -> bool {
        self.map_rows() * self.map_cols() == 8 * self.total() + 4
    }
    pub fn name(&self) -> String {
        format!("{}x{}", self.rows, self.cols)
    }
}

/// Internal consistency of the typed-in table; an error here is an engine error.
pub fn self_check() -> Result<(), String> {
    let mut dims = std::collections::BTreeSet::new();
    for sy in SYMBOLS.iter() {
        if sy.rows != sy.reg_v * (sy.reg_rows + 2) || sy.cols != sy.reg_h * (sy.reg_cols + 2) {
            return Err(format!("{}: regions do not tile the symbol", sy.name()));
        }
        let area = sy.map_rows() * sy.map_cols();
        let bits = 8 * sy.total();
        let padded = matches!((sy.rows, sy.cols), (12, 12) | (16, 16) | (20, 20) | (24, 24));
        if area != bits + if padded { 4 } else { 0 } {
            return Err(format!("{}: module count {} != 8*{}", sy.name(), area, sy.total()));
        }
        if sy.ec % sy.blocks != 0 {
            return Err(format!("{}: EC not divisible by blocks", sy.name()));
        }
        if !dims.insert((sy.rows, sy.cols)) {
            return Err(format!("{}: duplicate dimensions", sy.name()));
        }
    }
    if SYMBOLS.iter().filter(|s| !s.dmre).count() != 30 {
        return Err("expected 30 ISO 16022 symbols".into());
    }
    Ok(())
}

pub fn by_dims(rows: usize, cols: usize) -> Option<usize> {
    SYMBOLS.iter().position(|s| s.rows == rows && s.cols == cols)
}
