//! R7 — character sets by rule (not copied tables) and UTF-8 validity by a
//! hand-written RFC 3629 automaton.

/// ISO/IEC 8859-1: printable bytes map to the code point of the same value.
pub fn latin1(b: u8) -> Option<char> {
    match b {
        0x20..=0x7E | 0xA0..=0xFF => Some(b as char),
        _ => None,
    }
}

/// ISO/IEC 8859-9 (Latin-5, Turkish): Latin-1 with six replacements.
pub fn latin5(b: u8) -> Option<char> {
    match b {
        0xD0 => Some('\u{011E}'),
        0xDD => Some('\u{0130}'),
        0xDE => Some('\u{015E}'),
        0xF0 => Some('\u{011F}'),
        0xFD => Some('\u{0131}'),
        0xFE => Some('\u{015F}'),
        _ => latin1(b),
    }
}

/// ISO/IEC 8859-11 (Thai): ASCII, NBSP, then TIS-620: 0xA1..0xDA -> U+0E01..U+0E3A,
/// 0xDF..0xFB -> U+0E3F..U+0E5B; 0xDB..0xDE and 0xFC..0xFF are undefined.
pub fn thai(b: u8) -> Option<char> {
    match b {
        0x20..=0x7E => Some(b as char),
        0xA0 => Some('\u{00A0}'),
        0xA1..=0xDA | 0xDF..=0xFB => char::from_u32(0x0E00 + (b as u32 - 0xA0)),
        _ => None,
    }
}

/// RFC 3629 well-formedness (no overlongs, no surrogates, <= U+10FFFF).
pub fn utf8_valid(s: &[u8]) -> bool {
    let mut i = 0;
    let n = s.len();
    while i < n {
        let b = s[i];
        let (need, lo, hi) = match b {
            0x00..=0x7F => (0, 0x80, 0xBF),
            0xC2..=0xDF => (1, 0x80, 0xBF),
            0xE0 => (2, 0xA0, 0xBF),
            0xE1..=0xEC | 0xEE..=0xEF => (2, 0x80, 0xBF),
            0xED => (2, 0x80, 0x9F),
            0xF0 => (3, 0x90, 0xBF),
            0xF1..=0xF3 => (3, 0x80, 0xBF),
            0xF4 => (3, 0x80, 0x8F),
            _ => return false,
        };
        if need > 0 && i + need >= n {
            return false;
        }
        for k in 1..=need {
            let c = s[i + k];
            let (l, h) = if k == 1 { (lo, hi) } else { (0x80, 0xBF) };
            if c < l || c > h {
                return false;
            }
        }
        i += need + 1;
    }
    true
}

pub fn self_check() -> Result<(), String> {
    // agreement with the standard library on all 1..3 byte sequences is checked by C15;
    // here: a few fixed points
    for (bytes, ok) in [
        (&b"\xC0\x80"[..], false),
        (&b"\xE0\x9F\xBF"[..], false),
        (&b"\xED\xA0\x80"[..], false),
        (&b"\xF4\x90\x80\x80"[..], false),
        (&b"\xF0\x9F\x98\x80"[..], true),
        (&b"\xC3\xA9"[..], true),
        (&b"\xE2\x82"[..], false),
        (&b""[..], true),
    ] {
        if utf8_valid(bytes) != ok {
            return Err(format!("utf8_valid({:?})", bytes));
        }
    }
    if thai(0xA1) != Some('\u{0E01}') || thai(0xDA) != Some('\u{0E3A}') || thai(0xDF) != Some('\u{0E3F}') || thai(0xFB) != Some('\u{0E5B}') || thai(0xDB).is_some() || thai(0xFC).is_some() {
        return Err("thai".into());
    }
    if latin5(0xD0) != Some('Ğ') || latin5(0xFD) != Some('ı') || latin5(0xE9) != Some('é') || latin5(0x80).is_some() {
        return Err("latin5".into());
    }
    Ok(())
}
